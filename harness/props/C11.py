"""C11: JSON round trip preserves every asset and portfolio."""
import random, copy
import pandas as pd
import common as C
import gen
from props import util

THEOREMS = ['C11_every_class_loadable', 'C11_linked_asset_refuted', 'C11_timegrid_keys', 'C11_value_round_trip', 'C11_save_load_save', 'C11_load_is_stable']
CFG = {'p_coarse': 0.2, 'p_periodic': 0.2, 'T': (3, 8), 'n_assets': (2, 5), 'nodes': (1, 3), 'p_window': 0.5, 'p_market': 0.8, 'p_wacc': 0.5,
       'p_cap_dict': 0.5, 'p_inflow': 0.4, 'p_no_simult': 0.2, 'p_max_store': 0.2, 'p_full_exec': 0.3, 'p_window_scaled': 0.6, 'p_blocks': 0.1,
       'freqs': ['h', 'h', 'd', '30min', '2h'], 'units': ['h', 'd', 'min'], 'tzs': [None, 'CET', 'US/Eastern'],
       'kinds': {'SimpleContract': 2, 'Contract': 2, 'Transport': 2, 'Storage': 3, 'MultiCommodityContract': 2, 'OrderBook': 2,
                 'ExtendedTransport': 2, 'ScaledAsset': 3, 'StructuredAsset': 2}}
SPECIAL = ['Plant', 'CHPAsset', 'CHPAsset_with_min_load_costs', 'LinkedAsset', 'Portfolio_grid_starts_in_repeated_hour', 'Portfolio_grid_ends_in_repeated_hour',
           'Portfolio_wrapping_a_portfolio_with_another_grid']


def run(ctx):
    # the class table is regenerated from the sources of the repository under test before the theorems are re-checked
    import classtable
    classtable.main()
    if not ctx.proof_gate(THEOREMS, ['ClassTable.vo']):
        # the table no longer satisfies the theorem: look for a concrete object that does not survive the round trip
        pass_gate = False
    else:
        pass_gate = True
    n = 50 if ctx.tier == 'quick' else 400
    specs = util.corpus(ctx.prop) + gen.gen_many(ctx.seed, n, CFG, 'c11_')
    for sp in specs:
        if 'grid2' not in sp['opts']:
            rng = random.Random(str(sp['seed']) + '/g2')
            g = dict(sp['grid'])
            step = gen.freq_td(g['freq'])
            g['start'] = gen.fmt(pd.Timestamp(g['start']) + rng.randint(0, 2) * step)
            g['end'] = gen.fmt(pd.Timestamp(g['end']) + rng.randint(1, 3) * step)
            g['unit'] = rng.choice(['h', 'd'])
            try:
                gen.check_safe(g['start'], g.get('tz')); gen.check_safe(g['end'], g.get('tz'))
                g['T'] = gen.grid_T(g)
                sp['opts']['grid2'] = g
            except Exception:
                sp['opts']['grid2'] = None
    for sp in specs:
        rng = random.Random(str(sp['seed']) + '/dates')
        for a in sp['assets']:
            for key in ('max_take', 'min_take', 'min_cap', 'max_cap', 'extra_costs'):
                if isinstance(a.get(key), dict) and 'dates_as' not in a[key] and rng.random() < 0.5:
                    a[key]['dates_as'] = rng.choice(['datetime64[s]', 'datetime64[m]', 'datetime64[ns]', 'datetime64[ms]', 'DatetimeIndex', 'DatetimeIndex_aware']
                                                    + (['object_array_aware', 'object_array_aware'] if sp['grid'].get('tz') else []))
                    a[key]['as_array'] = rng.random() < 0.5
                elif isinstance(a.get(key), dict) and 'dates_as' not in a[key] and sp['grid'].get('tz') and rng.random() < 0.6:
                    a[key]['stamp_tz'] = rng.choice(['UTC', 'UTC', 'Etc/GMT-3'])      # zone-aware stamps in UTC / a fixed offset
            if sp['grid'].get('tz') and (a.get('start') or a.get('end')) and a['kind'] not in ('OrderBook', 'StructuredAsset', 'ScaledAsset') and rng.random() < 0.5:
                a['window_tz'] = rng.choice(['UTC', 'UTC', 'Etc/GMT-3'])
    # daily take periods given as a date index with frequency 'D' in the zone of the grid, across a clock change
    daily = gen.gen_many(ctx.seed, n // 4, dict(CFG, freqs=['d'], tzs=['CET'], p_dst=1.0, T=(4, 8), p_coarse=0.0, p_periodic=0.0, p_unaligned_end=0.0, p_window=0.0,
                                                kinds={'Contract': 3, 'SimpleContract': 1}, n_assets=(1, 2)), 'c11day_')
    for sp in daily:
        pts_ = [pd.Timestamp(sp['grid']['start']) + pd.Timedelta(days=k_) for k_ in range(sp['grid']['T'] + 1)]
        for a in sp['assets']:
            if a['kind'] == 'Contract':
                a.pop('min_take', None)
                a['max_take'] = {'start': [gen.fmt(t) for t in pts_[:-1]], 'end': [gen.fmt(t) for t in pts_[1:]],
                                 'values': [10.0 + k_ for k_ in range(len(pts_) - 1)], 'dates_as': 'date_range_D'}
        sp['opts']['grid2'] = None
    specs += daily
    # plants and CHP units from the generator: unit commitment parameters, ramp profiles (lists / numpy arrays), time-varying capacity,
    # a CHP declared without heat node
    plants = gen.gen_many_plants(ctx.seed, n // 3, dict(CFG, freqs=['h', '2h'], units=['h'], tzs=[None], T=(4, 8), p_profile=0.5, p_unaligned_end=0.0), 'c11p_')
    # ... also on daily grids, some of them naming the grid's frequency as their own
    plants += gen.gen_many_plants(ctx.seed, n // 4, dict(CFG, freqs=['d', 'h'], units=['h', 'd'], tzs=[None], T=(4, 7), p_profile=0.0, p_unaligned_end=0.0), 'c11pd_')
    for i, sp in enumerate(plants):
        a = [x for x in sp['assets'] if x['kind'] in ('Plant', 'CHPAsset')][0]
        if sp['id'].startswith('c11pd_') and i % 3:
            a['freq'] = sp['grid']['freq']
        if a['kind'] == 'Plant' and i % 2:
            a['kind'], a['_no_heat'] = 'CHPAsset', True
        sp['opts']['grid2'] = None
    specs += plants
    for k, name in enumerate(SPECIAL):
        specs.append({'id': 'c11s_%s' % name, 'seed': 'c11s_%s' % name, 'opts': {'special': name}, 'prices': {}, 'assets': [],
                      'grid': {'start': '2021-01-04 00:00', 'end': '2021-01-04 08:00', 'freq': 'h', 'unit': 'h', 'tz': None, 'T': 8}})
    specs = [sp for sp in ctx.specs(specs) if not sp.get('codec')]
    res = C.run_impl('json', specs) if specs else []
    for sp, o in zip(specs, res):
        ctx.count('status:' + str(o.get('status')))
        if o.get('status') != 'ok':
            continue
        ctx.count('grid:%s/%s/%s' % (sp['grid']['freq'], sp['grid']['unit'], sp['grid']['tz']))
        for r in o['objects']:
            label = r['label']
            cls = label.split(':')[0]
            ctx.count('class:' + cls)
            if 'construct_error' in r:
                ctx.count('not constructible: ' + cls)
                continue
            for phase in ('new', 'after set-up'):
                ph = r.get(phase) or {}
                ctx.cov['impl_oracle_evaluations'] += 1
                bad = {}
                if 'error' in ph:
                    bad['round trip raises'] = ph['error']
                else:
                    for key in ('resave_equal', 'grid_equal', 'own_grid_problem_equal', 'problem_equal_0', 'problem_equal_1'):
                        if ph.get(key) is False:
                            bad[key] = ph.get('problem_diff_' + key[-1]) if key.startswith('problem_equal') else False
                    if ph.get('twin_grid_zone_kept') is not None and ph.get('twin_grid_zone_kept') is not True:
                        bad['another portfolio of the session (same instants, other zone) loaded with its own zone'] = ph['twin_grid_zone_kept']
                    if 'own_grid_error' in ph:
                        bad['set-up on the portfolio\'s own grid after loading'] = ph['own_grid_error']
                if bad:
                    trig = {'what': 'round trip: ' + cls}
                    if cls == 'LinkedAsset':
                        trig = {'what': 'LinkedAsset not loadable'}
                    ctx.violation('impl-violation', {'spec': sp, 'object': label, 'phase': phase, 'observed': bad,
                                                     'expected': 'load(save(x)) builds the identical problem on any grid; save(load(save(x))) = save(x); own grid survives'},
                                  trigger=trig)
        ctx.sample({'spec': sp})
    ctx.cov['correspondence']['cases'] = len(specs)
    # the value layer of the serialiser against Codec.v
    from props import codec
    codec.run(ctx, 160 if ctx.tier == 'quick' else 1200)
