"""C12: the main time unit is irrelevant; limits follow the step length."""
import random, copy
import numpy as np
import common as C
import gen
import modelspec as M
from props import util

THEOREMS = ['C12_step_length_under_unit_change', 'C12_limits_invariant', 'C12_durations_invariant', 'C12_discount_exponent_unit_free',
            'C12_total_time_is_elapsed', 'C12_volume_follows_step_length']
CFG = {'p_coarse': 0.15, 'p_periodic': 0.1, 'T': (3, 9), 'n_assets': (1, 4), 'nodes': (1, 3), 'p_window': 0.3, 'p_market': 0.9, 'p_wacc': 0.6,
       'p_inflow': 0.5, 'p_max_store': 0.15, 'p_no_simult': 0.1, 'p_full_exec': 0.2, 'tzs': [None, None, 'CET'], 'p_dst': 0.8,
       'freqs': ['h', 'h', '2h', '30min', 'd'],
       'kinds': {'SimpleContract': 2, 'Contract': 2, 'Transport': 2, 'Storage': 4, 'MultiCommodityContract': 1, 'OrderBook': 2,
                 'ExtendedTransport': 1, 'ScaledAsset': 2}}
UNITS = ['h', 'd', 'min']


def scale_param(p, k, prices, memo):
    if p is None:
        return None
    if isinstance(p, (int, float)):
        return p * k
    if isinstance(p, str):
        if p not in memo:
            memo[p] = p + '_u'
            prices[memo[p]] = [v * k for v in prices[p]]
        return memo[p]
    if isinstance(p, dict) and 'values' in p:
        return dict(p, values=[v * k for v in p['values']])
    raise ValueError(p)


def change_asset(a, k, prices, memo):
    kind = a['kind']
    if kind in ('SimpleContract', 'Contract', 'MultiCommodityContract'):
        for key in ('min_cap', 'max_cap'):
            if key in a:
                a[key] = scale_param(a[key], k, prices, memo)
    elif kind in ('Transport', 'ExtendedTransport'):
        for key in ('min_cap', 'max_cap'):
            if key in a:
                a[key] = a[key] * k
    elif kind == 'Storage':
        for key in ('cap_in', 'cap_out', 'inflow', 'cost_store'):
            if key in a:
                a[key] = a[key] * k
        if a.get('max_store_duration') is not None:
            a['max_store_duration'] = a['max_store_duration'] / k
    elif kind == 'Plant':
        # rates per main time unit; run / down times are durations in the main time unit (start costs are amounts)
        for key in ('min_cap', 'max_cap'):
            if key in a:
                a[key] = scale_param(a[key], k, prices, memo)
        for key in ('min_runtime', 'min_downtime', 'time_already_running', 'time_already_off'):
            if key in a:
                a[key] = a[key] / k
        for key in ('ramp', 'last_dispatch'):       # rates per main time unit (the ramp: change of the rate per step)
            if a.get(key) is not None:
                a[key] = a[key] * k
        if 'running_costs' in a:                    # costs per main time unit while on
            a['running_costs'] = scale_param(a['running_costs'], k, prices, memo)
    elif kind == 'OrderBook':
        a['orders']['capa'] = [c * k for c in a['orders']['capa']]
    elif kind == 'ScaledAsset':
        a['fix_costs'] = a.get('fix_costs', 0.0) * k
        change_asset(a['base'], k, prices, memo)
    elif kind == 'StructuredAsset':
        for b in a['assets']:
            change_asset(b, k, prices, memo)
    else:
        raise ValueError('unit change not defined for ' + kind)


def change_unit(sp, new_unit):
    """the same physical portfolio with all rates and durations re-expressed for another main time unit"""
    v = copy.deepcopy(sp)
    k = M.unit_secs(new_unit) / M.unit_secs(sp['grid'].get('unit', 'h'))
    v['grid']['unit'] = new_unit
    memo = {}
    for a in v['assets']:
        change_asset(a, k, v['prices'], memo)
    v['id'] = sp['id'] + '+' + new_unit
    return v, k


def rate_oracle(ctx, sp, pa):
    """limits of constant-rate assets add up to rate x elapsed time of the asset's window (any step lengths)"""
    g = sp['grid']
    pts = M.grid_pts(g)
    us = M.unit_secs(g.get('unit', 'h'))
    tz = g.get('tz')
    for a, r in zip(sp['assets'], pa['assets']):
        if r['status'] != 'ok' or a.get('periodicity'):
            continue
        coarse = bool(a.get('freq'))
        P = r['problem']
        lo = M.inst(a['start'], tz) if a.get('start') else None
        hi = M.inst(a['end'], tz) if a.get('end') else None
        steps = [t for t in range(len(pts) - 1) if (lo is None or lo <= pts[t]) and (hi is None or pts[t] < hi)]
        elapsed = sum(pts[t + 1] - pts[t] for t in steps) / us
        bad = None
        if a['kind'] == 'SimpleContract' and isinstance(a.get('max_cap'), (int, float)) and isinstance(a.get('min_cap'), (int, float)) and (coarse or len(P['u']) == len(steps)) and len(P['u']) <= len(steps):
            if abs(sum(P['u']) - a['max_cap'] * elapsed) > 1e-9 * (1 + abs(a['max_cap'] * elapsed)) or abs(sum(P['l']) - a['min_cap'] * elapsed) > 1e-9 * (1 + abs(a['min_cap'] * elapsed)):
                bad = {'sum of upper limits': sum(P['u']), 'max_cap x elapsed time': a['max_cap'] * elapsed, 'sum of lower limits': sum(P['l']), 'min_cap x elapsed time': a['min_cap'] * elapsed}
        elif a['kind'] == 'Transport' and (coarse or len(P['u']) == len(steps)):
            if abs(sum(P['u']) - a['max_cap'] * elapsed) > 1e-9 * (1 + abs(a['max_cap'] * elapsed)):
                bad = {'sum of upper limits': sum(P['u']), 'max_cap x elapsed time': a['max_cap'] * elapsed}
        elif a['kind'] == 'Storage' and steps and not a.get('no_simult_in_out') and a.get('max_store_duration') is None:
            sep = a.get('eff_in', 1.0) != 1.0 or bool(a.get('cost_in')) or bool(a.get('cost_out')) or len(a['nodes']) == 2
            n = len(P['l']) // 2 if sep else len(P['l'])
            tot_in = -sum(P['l'][:n])
            if abs(tot_in - a['cap_in'] * elapsed) > 1e-9 * (1 + a['cap_in'] * elapsed):
                bad = {'sum of charge limits': tot_in, 'cap_in x elapsed time': a['cap_in'] * elapsed}
        else:
            continue
        ctx.cov['impl_oracle_evaluations'] += 1
        if bad:
            ctx.violation('impl-violation', {'spec': sp, 'asset': a, 'observed': bad, 'expected': 'total limit = rate x elapsed time'}, trigger={'what': 'rate x elapsed'})


def run(ctx):
    if not ctx.proof_gate(THEOREMS, ['TimeUnit.vo']):
        return
    n = 50 if ctx.tier == 'quick' else 400
    specs = util.corpus(ctx.prop) + gen.gen_many(ctx.seed, n, CFG, 'c12_')
    # calendar grids with steps of different length: months, weeks over a DST switch, days over a DST switch
    cal = gen.gen_many(ctx.seed, n // 3, dict(CFG, p_coarse=0.0, p_periodic=0.0, freqs=['d'], tzs=['CET', 'US/Eastern'], T=(3, 8), p_dst=0.0, p_window=0.2), 'c12cal_')
    for i, sp in enumerate(cal):
        sp['grid']['start'] = ['2021-03-26 00:00', '2021-10-29 00:00', '2021-03-12 00:00', '2021-11-05 00:00'][i % 4]
        sp['grid']['tz'] = ['CET', 'CET', 'US/Eastern', 'US/Eastern'][i % 4]
        import pandas as pd
        sp['grid']['end'] = (pd.Timestamp(sp['grid']['start']) + pd.Timedelta(days=sp['grid']['T'])).strftime('%Y-%m-%d %H:%M')
        for a in sp['assets']:
            a.pop('start', None); a.pop('end', None)
            if a['kind'] == 'OrderBook':
                a['orders'] = {'start': [sp['grid']['start']], 'end': [sp['grid']['end']], 'capa': [2.0], 'price': [3.0]}
            for key in ('min_cap', 'max_cap', 'extra_costs'):
                if isinstance(a.get(key), dict):
                    a[key] = a[key]['values'][0]
            for key in ('max_take', 'min_take'):
                a.pop(key, None)
    specs += cal
    from props.C13 import calendar_specs, claim_domain
    specs += [claim_domain(sp) for sp in calendar_specs(ctx.seed, 6 if ctx.tier == 'quick' else 30, 'c12coarse_') if sp['grid']['freq'] == 'h']
    for sp in specs:
        # holding durations strictly between two step boundaries: a comparison "elapsed <= duration" must not sit on a boundary,
        # where re-expressing the duration in another unit (division by 24 or 60 in floating point) could flip it by rounding
        if not sp['opts'].get('md_half'):
            sp['opts']['md_half'] = True
            step_units = gen.freq_td(sp['grid']['freq']) / gen.freq_td(sp['grid'].get('unit', 'h'))
            for a in sp['assets']:
                for b in (a, a.get('base') or {}):
                    if b.get('max_store_duration') is not None:
                        b['max_store_duration'] = (int(b['max_store_duration'] / step_units) + 0.5) * step_units
    # steps of unequal length with a maximum holding duration (daily steps across a clock change)
    specs += gen.gen_many(ctx.seed, n // 5, dict(CFG, freqs=['d'], tzs=['CET'], p_dst=1.0, T=(4, 8), p_max_store=0.8, p_coarse=0.0, p_periodic=0.0,
                                                 p_unaligned_end=0.0, kinds={'Storage': 1}, n_assets=(1, 2)), 'c12dst_')
    # split optimisation must be unit free as well (the interval problems are built on sub-grids)
    spl = gen.gen_many(ctx.seed, n // 4, dict(CFG, p_coarse=0.0, p_periodic=0.0, freqs=['h', '30min'], T=(6, 10), p_max_store=0.0, p_no_simult=0.0, p_full_exec=0.0,
                                              kinds={'SimpleContract': 2, 'Contract': 3, 'Transport': 2, 'Storage': 2, 'ExtendedTransport': 1}), 'c12s_')
    for sp in spl:
        sp['opts']['split'] = {'h': '3h', '30min': '2h'}[sp['grid']['freq']]
    specs += spl
    # take periods of contracts that start after the grid start, on daily grids with a day of 23 h / 25 h
    specs += gen.gen_many(ctx.seed, n // 4, dict(CFG, freqs=['d'], tzs=['CET'], p_dst=1.0, T=(4, 8), p_coarse=0.0, p_periodic=0.0, p_window=0.9, window_kinds=['right', 'inside', 'right'],
                                                 kinds={'Contract': 4, 'ExtendedTransport': 1, 'SimpleContract': 1}, nodes=(1, 2), n_assets=(1, 3)), 'c12tk_')
    # weekly assets on daily grids over the week of a clock change (minor steps of 23 h / 25 h inside one coarse step)
    wk = [{'start': s0, 'end': e0, 'freq': 'd', 'unit': u, 'tz': 'CET'} for s0, e0 in (('2021-03-22 00:00', '2021-04-05 00:00'), ('2021-10-25 00:00', '2021-11-08 00:00')) for u in ('h', 'd')]
    specs += gen.gen_many(ctx.seed, 6 if ctx.tier == 'quick' else 30, dict(CFG, grids=wk, p_coarse=1.0, coarse_freqs=['7d'], p_window=0.0, p_max_store=0.0, p_no_simult=0.0, p_periodic=0.0,
                                                                           kinds={'SimpleContract': 2, 'Transport': 1, 'Storage': 1}, nodes=(1, 2), n_assets=(1, 2)), 'c12wk_')
    # plants (unit commitment): minimum run / down times and the time already running / off are durations in the main time unit
    # (described in hours, re-expressed in minutes: exact in floating point)
    pl = gen.gen_many_plants(ctx.seed, n // 3, dict(CFG, freqs=['h', '30min', '15min'], units=['h'], tzs=[None], T=(5, 9), p_unaligned_end=0.0, p_profile=0.0, p_fuel=0.0, p_chp=0.0,
                                                    p_coarse=0.0, p_periodic=0.0, p_cap_dict=0.0), 'c12p_')
    for i_, sp in enumerate(pl):
        for a in sp['assets']:
            if a['kind'] == 'Plant':
                pass
                if sp['grid']['freq'] != 'h' and i_ % 2:
                    # durations of at most one main time unit that span several steps
                    if 'min_downtime' in a:
                        a['min_downtime'] = [1, 0.5][i_ % 4 // 2] if sp['grid']['freq'] == '15min' else 1
                    if 'min_runtime' in a:
                        a['min_runtime'] = 1
        sp['opts']['new_unit'] = 'min'
    specs += [sp for sp in pl if all(a['kind'] != 'Storage' or True for a in sp['assets'])]
    specs = ctx.specs(specs)
    base = [sp for sp in specs if '+' not in sp['id']]
    variants = []
    for sp in base:
        rng = random.Random(str(sp['seed']) + '/unit')
        nu = sp['opts'].get('new_unit') or rng.choice([u for u in UNITS if u != sp['grid'].get('unit', 'h')])
        variants.append(change_unit(sp, nu))
    allspecs = base + [v[0] for v in variants]
    res = C.run_impl('portfolio', allspecs)
    parts = C.run_impl('assets', allspecs)
    k0 = len(base)
    for i, sp in enumerate(base):
        ob, (va, k), ov = res[i], variants[i], res[k0 + i]
        ctx.count('status:' + str(ob.get('status')))
        ctx.count('unit:%s->%s' % (sp['grid'].get('unit', 'h'), va['grid']['unit']))
        for a in sp['assets']:
            ctx.count('kind:' + a['kind'])
        if parts[i].get('status') == 'ok':
            rate_oracle(ctx, sp, parts[i])
        ctx.cov['impl_oracle_evaluations'] += 1
        bad = {}
        if ob.get('status') != ov.get('status'):
            bad['set-up status'] = [ob.get('status'), ob.get('error'), ov.get('status'), ov.get('error')]
        elif ob.get('status') == 'ok':
            B, V = ob['problem'], ov['problem']
            close = lambda x, y: abs(x - y) <= 1e-9 * (1 + abs(x) + abs(y))
            for key in ('c', 'l', 'u', 'b'):
                if len(B[key]) != len(V[key]) or not all(close(x, y) for x, y in zip(B[key], V[key])):
                    bad['problem differs: ' + key] = [[j, x, y] for j, (x, y) in enumerate(zip(B[key], V[key])) if not close(x, y)][:5] or [len(B[key]), len(V[key])]
            if B['cType'] != V['cType'] or [r[0] for r in B['rows']] != [r[0] for r in V['rows']] or \
                    not all(close(x, y) for rb, rv in zip(B['rows'], V['rows']) for x, y in zip(rb[1], rv[1])):
                bad['problem differs: rows'] = True
            mb = [(r['index'], r['asset'], r['node'], r['type'], r['time_step']) for r in B['mapping']]
            mv = [(r['index'], r['asset'], r['node'], r['type'], r['time_step']) for r in V['mapping']]
            fb = [1.0 if r['disp_factor'] is None else r['disp_factor'] for r in B['mapping']]
            fv = [1.0 if r['disp_factor'] is None else r['disp_factor'] for r in V['mapping']]
            if mb != mv or not all(close(x, y) for x, y in zip(fb, fv)):
                bad['mapping differs (dispatched volumes per unit of the variable)'] = True
            if ob.get('solve') != ov.get('solve'):
                bad['solver status'] = [ob.get('solve'), ov.get('solve')]
            elif ob.get('solve') == 'optimal' and abs(ob['value'] - ov['value']) > 1e-6 * (1 + abs(ob['value'])):
                bad['optimal value'] = [ob['value'], ov['value']]
            sb, sv = ob.get('split'), ov.get('split')
            if isinstance(sb, dict) and isinstance(sv, dict):
                ctx.count('split compared')
                if sb.get('solve') != sv.get('solve') or ('setup_error' in sb) != ('setup_error' in sv):
                    bad['split: status'] = [sb.get('solve') or sb.get('setup_error'), sv.get('solve') or sv.get('setup_error')]
                elif sb.get('solve') == 'optimal':
                    if abs(sb['value'] - sv['value']) > 1e-6 * (1 + abs(sb['value'])):
                        bad['split: optimal value'] = [sb['value'], sv['value']]
                    if len(sb['c']) != len(sv['c']) or not all(close(x, y) for x, y in zip(sb['c'], sv['c'])):
                        bad['split: cost vector'] = True
        if bad:
            ctx.violation('impl-violation', {'spec': va, 'base_spec': sp, 'factor': k, 'observed': bad,
                                             'expected': 'same problem, value and volumes after re-expressing rates and durations for the other unit'},
                          trigger={'what': sorted(bad)[0]})
        ctx.sample({'spec': sp, 'new_unit': va['grid']['unit']})
    util.asset_corr(ctx, allspecs, parts, 'C12')
