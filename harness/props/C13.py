"""C13: coarse asset frequency and periodicity equal the fine problem plus equalities."""
import numpy as np
import common as C
import gen
import modelspec as M
import ref
from props import util
from props.C20 import ref_oracle

THEOREMS = ['C13_merged_point_satisfies_equalities', 'C13_merged_rows_are_the_fine_rows', 'C13_merged_value_is_the_fine_value',
            'C13_merged_limits_are_means', 'C13_coarse_weights', 'C13_coarse_rows', 'C13_coarse_dispatch_is_spread', 'C13_coarse_realises']
CFG = {'coarse_windows': True, 'p_coarse': 0.5, 'p_periodic': 0.5, 'T': (4, 12), 'n_assets': (1, 3), 'nodes': (1, 3), 'p_window': 0.0, 'p_wacc': 0.3, 'p_market': 0.9,
       'tzs': [None], 'units': ['h', 'd'], 'p_inflow': 0.3,
       'kinds': {'SimpleContract': 3, 'Contract': 2, 'Transport': 3, 'Storage': 3, 'MultiCommodityContract': 2, 'ExtendedTransport': 1}}


def claim_domain(sp):
    """the statement 'limits and prices averaged as documented': coarse assets carry constant limits; discounting and holding
    costs of merged steps are not part of the documented equivalence (first merged step is used)"""
    for a in sp['assets']:
        if a.get('freq') or a.get('periodicity'):
            a.pop('cost_store', None)
            a.pop('wacc', None)
        if a.get('freq'):
            snap_takes(sp, a)
            for k in ('min_cap', 'max_cap', 'extra_costs'):
                v = a.get(k)
                if isinstance(v, dict):
                    a[k] = v['values'][0]
                elif isinstance(v, str):
                    a[k] = sp['prices'][v][0]
    return sp


def snap_takes(sp, a):
    """take periods of a coarse asset: the documented equivalence speaks about whole coarse intervals, so the periods are moved to
    the boundaries of the asset's coarse intervals (start down, end up); assets with an own window keep no takes (the first / last
    coarse interval may lie partly outside the horizon)"""
    g = sp['grid']
    if a.get('start') or a.get('end') or a['kind'] not in ('Contract', 'ExtendedTransport'):
        a.pop('max_take', None)
        a.pop('min_take', None)
        return
    pts = M.grid_pts(g)
    T = len(pts) - 1
    grp = ref.groups_of(a, g, list(range(T)), pts)
    bnd = [pts[q[0]] for q in grp] + [pts[T]]
    tz = g.get('tz')
    for key in ('max_take', 'min_take'):
        tk = a.get(key)
        if not tk:
            continue
        st, en = [], []
        for s0, e0 in zip(tk['start'], tk['end']):
            lo, hi = M.inst(s0, tz), M.inst(e0, tz)
            if pts[0] < lo < pts[T]:
                lo = max(b for b in bnd if b <= lo)
            if pts[0] < hi < pts[T]:
                hi = min(b for b in bnd if b >= hi)
            st.append(gen.fmt(pd_ts(lo * 10 ** 9)))
            en.append(gen.fmt(pd_ts(hi * 10 ** 9)))
        a[key] = dict(tk, start=st, end=en)


def calendar_specs(seed, n, tag):
    """coarse frequency 'd' on an hourly CET grid over a DST switch (23 h / 25 h days) and periodicity 'd' within weeks ('W')
    on a 6-hourly grid starting on / off a week boundary"""
    import random
    out = []
    for i in range(n):
        rng = random.Random('%s/%s/%d' % (seed, tag, i))
        prices = {}
        if i % 3 == 2:
            # weekly asset on a daily grid: the week of the clock change has a day of 23 h / 25 h
            g = {'start': rng.choice(['2021-03-22 00:00', '2021-10-25 00:00']), 'freq': 'd', 'unit': rng.choice(['h', 'd']), 'tz': 'CET'}
            g['end'] = (pd_ts(g['start']) + pd_td(days=14)).strftime('%Y-%m-%d %H:%M')
            g['T'] = gen.grid_T(g)
            kind = rng.choice(['SimpleContract', 'Transport', 'Storage'])
            extra = {'freq': '7d'}
        elif i % 2 == 0:
            g = {'start': rng.choice(['2021-03-27 00:00', '2021-10-30 00:00']), 'freq': 'h', 'unit': rng.choice(['h', 'd']), 'tz': 'CET'}
            g['end'] = (pd_ts(g['start']) + pd_td(days=3)).strftime('%Y-%m-%d %H:%M')
            g['T'] = gen.grid_T(g)
            kind = rng.choice(['SimpleContract', 'Transport', 'Storage'])
            extra = {'freq': 'd'}
        else:
            g = {'start': rng.choice(['2021-01-03 00:00', '2021-01-04 00:00', '2021-01-06 12:00']), 'freq': '6h', 'unit': 'h', 'tz': None}
            g['end'] = (pd_ts(g['start']) + pd_td(days=rng.choice([10, 14]))).strftime('%Y-%m-%d %H:%M')
            g['T'] = gen.grid_T(g)
            kind = rng.choice(['SimpleContract', 'SimpleContract', 'Transport', 'Storage'])
            extra = {'periodicity': 'd', 'periodicity_duration': 'W'} if rng.random() < 0.7 else {'periodicity': 'd'}
        cfg = {'p_window': 0.0, 'p_wacc': 0.0, 'p_coarse': 0.0, 'p_periodic': 0.0, 'p_cap_dict': 0.0, 'p_cap_key': 0.0}
        assets = [gen.gen_simple_contract(rng, g, cfg, 'mA', 'A', prices, market=True), gen.gen_simple_contract(rng, g, cfg, 'mB', 'B', prices, market=True)]
        if kind == 'SimpleContract':
            a = gen.gen_simple_contract(rng, g, cfg, 'x', 'A', prices)
        elif kind == 'Transport':
            a = gen.gen_transport(rng, g, cfg, 'x', 'A', 'B', prices)
        else:
            a = gen.gen_storage(rng, g, cfg, 'x', ['A'], prices)
            a['end_level'] = a['start_level']
        a.update(extra)
        assets.append(a)
        sp = {'grid': g, 'prices': prices, 'assets': assets, 'opts': {}, 'id': '%s%d' % (tag, i), 'seed': '%s/%s/%d' % (seed, tag, i)}
        out.append(sp)
    return out


def both_specs(seed, n, tag):
    """assets that are BOTH on a coarser frequency and periodic (4-hourly blocks repeating every day), with restrictions of their own"""
    import random
    out = []
    for i in range(n):
        rng = random.Random('%s/%s/%d' % (seed, tag, i))
        g = {'start': '2021-05-03 00:00', 'freq': 'h', 'unit': 'h', 'tz': None}
        g['end'] = (pd_ts(g['start']) + pd_td(days=rng.choice([2, 3]))).strftime('%Y-%m-%d %H:%M')
        g['T'] = gen.grid_T(g)
        prices = {}
        cfg = {'p_window': 0.0, 'p_wacc': 0.0, 'p_coarse': 0.0, 'p_periodic': 0.0, 'p_cap_dict': 0.0, 'p_cap_key': 0.0, 'p_inflow': 0.0, 'p_blocks': 0.0}
        assets = [gen.gen_simple_contract(rng, g, cfg, 'mA', 'A', prices, market=True)]
        kind = rng.choice(['Storage', 'Storage', 'SimpleContract'])
        if kind == 'Storage':
            a = gen.gen_storage(rng, g, cfg, 'x', ['A'], prices)
            a['end_level'] = a['start_level']
            a.pop('cost_store', None)
        else:
            a = gen.gen_simple_contract(rng, g, cfg, 'x', 'A', prices)
        a.update({'freq': rng.choice(['4h', '3h', '6h']), 'periodicity': 'd'})
        a.pop('wacc', None)
        assets.append(a)
        out.append({'grid': g, 'prices': prices, 'assets': assets, 'opts': {}, 'id': '%s%d' % (tag, i), 'seed': '%s/%s/%d' % (seed, tag, i)})
    return out


def pd_ts(x):
    import pandas as pd
    return pd.Timestamp(x)


def pd_td(**kw):
    import pandas as pd
    return pd.Timedelta(**kw)


def shape_oracle(ctx, sp, o, mode, disp):
    """constant rate inside every coarse interval / identical dispatch at the same position of every period"""
    g = sp['grid']
    pts = M.grid_pts(g)
    T = len(pts) - 1
    us = M.unit_secs(g.get('unit', 'h'))
    dt = [(pts[t + 1] - pts[t]) / us for t in range(T)]
    for a in sp['assets']:
        if not (a.get('freq') or a.get('periodicity')) or a['kind'] in ('OrderBook', 'ScaledAsset', 'StructuredAsset'):
            continue
        ctx.cov['impl_oracle_evaluations'] += 1
        for n in dict.fromkeys(a['nodes']):
            col = util.colname(o, a['name'], n)
            if col not in disp:
                continue
            v = [x or 0.0 for x in disp[col]]
            scale = 1 + max(abs(x) for x in v)
            bad = None
            if a.get('freq'):
                for grp in ref.groups_of(a, g, list(range(T)), pts):
                    rates = [v[t] / dt[t] for t in grp]
                    if max(rates) - min(rates) > 1e-6 * scale / min(dt):
                        bad = {'rates inside one coarse interval': rates, 'steps': grp}
                        break
            else:
                pc = ref.period_classes(a, g, pts)
                first = {}
                for t in range(T):
                    k = pc[t]
                    if k in first and abs(v[first[k]] - v[t]) > 1e-6 * scale:
                        bad = {'dispatch at the same position of two periods': [v[first[k]], v[t]], 'steps': [first[k], t]}
                        break
                    first.setdefault(k, t)
            if bad:
                ctx.violation('impl-violation', {'spec': sp, 'mode': mode, 'asset': a['name'], 'node': n, 'observed': bad,
                                                 'expected': 'constant rate within a coarse interval / same dispatch at the same position of every period'},
                              trigger={'what': 'shape: ' + ('coarse' if a.get('freq') else 'periodic')})
                break


def run(ctx):
    if not ctx.proof_gate(THEOREMS, ['Merge.vo']):
        return
    n = 70 if ctx.tier == 'quick' else 500
    specs = util.corpus(ctx.prop) + gen.gen_many(ctx.seed, n, CFG, 'c13_')
    specs += calendar_specs(ctx.seed, 12 if ctx.tier == 'quick' else 60, 'c13cal_')
    specs += both_specs(ctx.seed, 8 if ctx.tier == 'quick' else 40, 'c13both_')
    # coarse assets with a window of their own that begins before the horizon (by no multiple of the coarse step, or by more than one)
    specs += gen.gen_many(ctx.seed, n // 3, dict(CFG, p_coarse=1.0, p_periodic=0.0, coarse_windows=True, p_coarse_window=1.0, p_coarse_before=0.7, p_coarse_early=0.2, freqs=['h', '30min'], T=(6, 12), n_assets=(1, 2)), 'c13cw_')
    specs = [claim_domain(sp) for sp in ctx.specs(specs)]
    res = C.run_impl('reference', specs)
    small = [sp for sp in specs if sp['grid']['T'] <= 16]
    parts = C.run_impl('assets', small)
    for sp, o in zip(specs, res):
        ctx.count('status:' + str(o.get('status')))
        for a in sp['assets']:
            ctx.count('kind:%s%s' % (a['kind'], ':coarse' if a.get('freq') else (':periodic' if a.get('periodicity') else '')))
        ref_oracle(ctx, sp, o, 'optimum of the fine-grid problem with the equalities added (independent formulation)')
        if o.get('status') == 'ok':
            if o.get('out_r'):
                shape_oracle(ctx, sp, o, 'boxpoint', o['out_r']['dispatch'])
            if o.get('solve') == 'optimal' and o.get('out'):
                shape_oracle(ctx, sp, o, 'optimal', o['out']['dispatch'])
        ctx.sample({'spec': sp})
    util.asset_corr(ctx, small, parts, 'C13')
