"""C14: split optimisation is consistent with the unsplit problem."""
import random
import common as C
import gen
import modelspec as M
from props import util
from props.C03 import duals_to_y

THEOREMS = ['C14_value_is_sum_of_interval_optima', 'C14_feasible_iff_every_interval', 'C14_steps_refer_to_original_grid', 'C14_split_le_unsplit']
CFG = {'p_no_simult': 0.2, 'p_coarse': 0.0, 'p_periodic': 0.0, 'T': (4, 12), 'n_assets': (1, 4), 'nodes': (1, 3), 'p_window': 0.4, 'p_market': 0.95, 'p_wacc': 0.6,
       'freqs': ['h', 'h', '30min'], 'units': ['h', 'd', 'd', 'min'], 'p_unaligned_end': 0.2, 'tzs': [None, None, 'CET'],
       'kinds': {'SimpleContract': 3, 'Contract': 1, 'Transport': 3, 'Storage': 2, 'MultiCommodityContract': 2, 'OrderBook': 1, 'ExtendedTransport': 1}}
SPECIAL = ('OrderBook', 'ScaledAsset', 'StructuredAsset', 'Plant', 'CHPAsset')      # (units: every interval starts from the declared initial state - no comparison with the unsplit problem)


def var_keys(mapping):
    keys = {}
    for r in mapping:
        k = keys.setdefault(r['index'], [r['asset'], r['var_name'], r['type'], []])
        k[3].append((str(r['node']), r['time_step'], round(r['disp_factor'] if r['disp_factor'] is not None else 1.0, 9)))
    return {j: (k[0], k[1], k[2], tuple(sorted(k[3]))) for j, k in keys.items()}


def interval_ranges(sp, size):
    """original step ids of every interval, from the calendar"""
    import pandas as pd
    g = sp['grid']
    tz = g.get('tz')
    pts = M.grid_pts(g)
    cuts = pd.date_range(start=M.tstamp(g['start'], tz), end=M.tstamp(g['end'], tz), freq=size, tz=tz)
    cuts = [int(p.value // 10 ** 9) for p in cuts] + [M.inst(g['end'], tz)]
    if cuts[0] > M.inst(g['start'], tz):
        cuts = [M.inst(g['start'], tz)] + cuts          # anchored interval sizes ('W', 'MS'): the stretch before the first anchor is an interval
    out = []
    for lo, hi in zip(cuts[:-1], cuts[1:]):
        st = [t for t in range(len(pts) - 1) if lo <= pts[t] < hi]
        if st:
            out.append(st)
    return out


def typical_day_specs(seed, n, tag):
    """the same price profile in every interval (typical-day prices), no discounting, equal capacities - only the volume limits of a
    contract differ from interval to interval"""
    import pandas as pd
    out = []
    for i in range(n):
        rng = random.Random('%s/%s/%d' % (seed, tag, i))
        m, k = rng.choice([3, 4]), rng.choice([2, 3])
        T = m * k
        g = {'start': '2022-05-02 00:00', 'freq': 'h', 'unit': 'h', 'tz': None, 'T': T}
        g['end'] = (pd.Timestamp(g['start']) + pd.Timedelta(hours=T)).strftime('%Y-%m-%d %H:%M')
        prof = [gen.k8(rng, 1, 9) for _ in range(m)]
        prices = {'p0': prof * k, 'p1': [v + 1.0 for v in prof] * k}
        pts = [pd.Timestamp(g['start']) + pd.Timedelta(hours=m * j) for j in range(k + 1)]
        vals = rng.sample([2.0, 3.5, 5.0, 6.5, 8.0], k)
        assets = [{'kind': 'SimpleContract', 'name': 'mkt', 'nodes': ['N0'], 'price': 'p0', 'min_cap': -30.0, 'max_cap': 30.0},
                  {'kind': 'Contract', 'name': 'supply', 'nodes': ['N0'], 'price': None, 'min_cap': 0.0, 'max_cap': 4.0,
                   'max_take': {'start': [gen.fmt(t) for t in pts[:-1]], 'end': [gen.fmt(t) for t in pts[1:]], 'values': vals}}]
        if rng.random() < 0.5:
            assets[1]['price'] = 'p1'
            assets[1]['min_take'] = {'start': [gen.fmt(t) for t in pts[:-1]], 'end': [gen.fmt(t) for t in pts[1:]], 'values': [v / 2 for v in vals]}
        out.append({'grid': g, 'prices': prices, 'assets': assets, 'opts': {'split': '%dh' % m}, 'id': '%s%d' % (tag, i), 'seed': '%s/%s/%d' % (seed, tag, i)})
    return out


def run(ctx):
    if not ctx.proof_gate(THEOREMS, ['Split.vo', 'Build.vo']):
        return
    n = 60 if ctx.tier == 'quick' else 400
    specs = util.corpus(ctx.prop) + gen.gen_many(ctx.seed, n, CFG, 'c14_')
    for sp in specs:
        if 'split' not in sp['opts']:
            rng = random.Random(str(sp['seed']) + '/split')
            sp['opts']['split'] = rng.choice({'h': ['3h', '2h', '4h'], '30min': ['2h', '90min', 'h']}[sp['grid']['freq']])
    # longer horizons split by day, main time unit 'd', discounting
    long = gen.gen_many(ctx.seed, n // 4, dict(CFG, T=(30, 60), freqs=['h'], units=['d', 'h'], p_wacc=0.9, n_assets=(1, 3)), 'c14d_')
    for sp in long:
        sp['opts']['split'] = 'd'
    specs += long
    # assets that live only in part of the horizon, no market at the nodes: some intervals have no active asset at all
    gap = gen.gen_many(ctx.seed, n // 4, dict(CFG, p_market=0.0, p_window=1.0, window_kinds=['inside', 'left', 'right'], n_assets=(1, 3), T=(6, 12),
                                              kinds={'SimpleContract': 3, 'Transport': 1, 'Storage': 1}), 'c14gap_')
    for sp in gap:
        sp['opts']['split'] = {'h': '3h', '30min': '2h'}[sp['grid']['freq']]
    specs += gap
    specs += util.split_twin_specs(ctx.seed, 10 if ctx.tier == 'quick' else 60, 'c14tw_')
    # interval sizes anchored in the calendar (weeks) on horizons that do not start on the anchor
    wk = gen.gen_many(ctx.seed, n // 6, dict(CFG, freqs=['d'], tzs=[None], T=(9, 18), n_assets=(1, 3), p_unaligned_end=0.0,
                                             kinds={'SimpleContract': 3, 'Transport': 2, 'Storage': 2, 'Contract': 1}), 'c14wk_')
    for sp in wk:
        sp['opts']['split'] = 'W'
    specs += wk
    # nodes left out of the nodal restrictions (skip_nodes) in both the unsplit and the split set-up
    sk = gen.gen_many(ctx.seed, n // 5, dict(CFG, nodes=(2, 3), p_market=0.6, n_assets=(2, 4)), 'c14sk_')
    for sp in sk:
        rng = random.Random(str(sp['seed']) + '/skip')
        sp['opts']['split'] = {'h': '3h', '30min': '2h'}[sp['grid']['freq']]
        sp['opts']['skip_nodes'] = [rng.choice(sorted(set(nn for a in sp['assets'] for nn in a['nodes'])))]
    specs += sk
    specs += util.orderbook_tail_specs(ctx.seed, 8 if ctx.tier == 'quick' else 50, 'c14ob_')
    # assets with a coarser frequency and discounting, split at multiples of the coarse step (uncoupled: split value = unsplit value)
    for T_ in (24, 36):
        co = gen.gen_many(ctx.seed, n // 8, dict(CFG, freqs=['h'], tzs=[None], T=(T_, T_), p_coarse=0.7, p_wacc=1.0, p_window=0.0, p_unaligned_end=0.0, n_assets=(1, 3), p_no_simult=0.0,
                                                 kinds={'SimpleContract': 4, 'Transport': 2, 'MultiCommodityContract': 1}), 'c14co%d_' % T_)
        for sp in co:
            sp['opts']['split'] = '12h'
        specs += co
    specs += typical_day_specs(ctx.seed, 10 if ctx.tier == 'quick' else 60, 'c14td_')
    # options of optimize() reach every interval: the relaxed ("soft") problem of portfolios with binary variables, split
    soft = gen.gen_many(ctx.seed, n // 5, dict(CFG, p_coarse=0.0, p_periodic=0.0, p_full_exec=1.0, p_no_simult=0.8, freqs=['h'], tzs=[None], T=(6, 10), p_unaligned_end=0.0,
                                               kinds={'OrderBook': 3, 'Storage': 2, 'SimpleContract': 2}), 'c14soft_')
    soft += gen.gen_many_plants(ctx.seed, n // 5, dict(CFG, freqs=['h'], units=['h'], tzs=[None], T=(6, 10), p_unaligned_end=0.0, p_profile=0.0, p_coarse=0.0, p_periodic=0.0, p_window=0.0), 'c14softp_')
    for sp in soft:
        sp['opts']['split'] = '3h'
        sp['opts']['optimize'] = {'make_soft_problem': True}
    specs += soft
    # rolling use: the same portfolio object was set up on the neighbouring horizon before the split set-up
    roll = gen.gen_many(ctx.seed, n // 4, dict(CFG, tzs=[None], p_unaligned_end=0.0, freqs=['h']), 'c14roll_')
    for k_, sp in enumerate(roll):
        sp['opts']['split'] = '3h'
        sp['opts']['split_warmup_shift'] = 1 if k_ % 2 else -1
    specs += roll
    # prices held as a time series whose stamps are not grid points: the split set-up gets the series, the unsplit problem its
    # interpolation on the grid - uncoupled portfolios must come out alike
    ts_ = gen.gen_many(ctx.seed, n // 4, dict(CFG, tzs=[None], freqs=['h'], T=(8, 12), p_unaligned_end=0.0, p_wacc=0.0, p_window=0.2, p_cap_key=0.0,
                                              kinds={'SimpleContract': 4, 'Transport': 2, 'MultiCommodityContract': 1}), 'c14ts_')
    for sp in ts_:
        sp['opts']['split'] = '4h'
        sp['opts']['price_frame_offgrid'] = True
    specs += ts_
    specs = ctx.specs(specs)
    res = C.run_impl('portfolio', specs)
    exprs, owners = [], []
    sm_exprs, sm_owners = [], []
    for sp, o in zip(specs, res):
        ctx.count('status:' + str(o.get('status')))
        if o.get('status') != 'ok':
            continue
        s = o.get('split')
        kinds = [a['kind'] for a in sp['assets']]
        if not isinstance(s, dict):
            continue
        ctx.cov['impl_oracle_evaluations'] += 1
        payload = {'spec': sp}
        if 'setup_error' in s:
            # is there an interval in which no asset has a single step?  (the calendar decides, independently of eaopack)
            from props.C08 import asset_steps
            alive = set(t for a in sp['assets'] for t in (asset_steps(sp['grid'], a) if a['kind'] != 'OrderBook' else range(sp['grid']['T'])))
            empty = [k for k, st in enumerate(interval_ranges(sp, sp['opts']['split'])) if not (set(st) & alive)]
            trig = {'what': 'split set-up fails'}
            if empty and 'index_portf' in s['setup_error']:
                trig = {'what': 'split set-up fails: interval without any active asset'}
            ctx.violation('impl-violation', dict(payload, observed='split set-up fails: ' + s['setup_error'], intervals_without_active_asset=empty,
                                                 expected='a portfolio that can be set up can be set up split'), trigger=trig)
            continue
        ctx.count('intervals:%d' % len(s['ops']))
        bad = {}
        # ---- steps refer to the original grid; every interval stays inside its own range
        rng_ = interval_ranges(sp, sp['opts']['split'])
        if len(rng_) != len(s['ops']):
            bad['number of intervals'] = [len(s['ops']), len(rng_)]
        off = 0
        for k, (p, st) in enumerate(zip(s['ops'], rng_)):
            nv = len(p['c'])
            rows = [r for r in s['mapping'] if off <= r['index'] < off + nv]
            wrong = [r['time_step'] for r in rows if r['time_step'] not in st]
            if wrong:
                bad['interval %d has mapping rows at steps of another interval' % k] = sorted(set(wrong))[:5]
            off += nv
        if off != len(s['c']) or any(not (0 <= r['index'] < off) for r in s['mapping']):
            bad['mapping index outside the variables'] = [r['index'] for r in s['mapping'] if not (0 <= r['index'] < off)][:5] or [off, len(s['c'])]
        # ---- dispatch rows of ordinary assets = those of the unsplit problem
        plain = [a['name'] for a in sp['assets'] if a['kind'] not in SPECIAL]
        # (which (asset, node, step) carry dispatch; the number of variables per step may differ: a contract whose spread is zero
        #  inside an interval needs one variable there and two in the unsplit problem)
        rows_of = lambda mp: sorted(set((r['asset'], str(r['node']), r['time_step']) for r in mp if r['type'] == 'd' and r['asset'] in plain))
        if rows_of(s['mapping']) != rows_of(o['problem']['mapping']):
            a_, b_ = rows_of(s['mapping']), rows_of(o['problem']['mapping'])
            bad['(asset, node, step) with dispatch differ from the unsplit problem'] = {'only split': [r for r in a_ if r not in b_][:4], 'only unsplit': [r for r in b_ if r not in a_][:4]}
        # ---- the decoded tables are labelled with the time points of the grid of the split problem
        idx = (s.get('out') or {}).get('dispatch_index')
        if idx is not None and idx != M.grid_pts(sp['grid'])[:-1]:
            bad['rows of the dispatch table are not labelled with the time points of the grid'] = [idx[:3], M.grid_pts(sp['grid'])[:3]]
        # ---- value = sum of interval optima
        if s.get('solve') == 'optimal':
            iv = s.get('interval_values') or []
            if None not in iv and abs(sum(iv) - s['value']) > 1e-6 * (1 + abs(s['value'])):
                bad['value is not the sum of the interval optima'] = [s['value'], iv]
            ag = s.get('again')
            if ag is not None and not (isinstance(ag, dict) and len(ag['x']) == len(s['x']) and abs(ag['value'] - s['value']) <= 1e-6 * (1 + abs(s['value']))):
                bad['optimising the same split problem again gives another result'] = [s['value'], len(s['x']), ag if not isinstance(ag, dict) else [ag['value'], len(ag['x'])]]
        elif s.get('solve') == 'crash':
            bad['split optimisation crashed'] = s.get('solve_error')
        if s.get('solve') == 'optimal' and s.get('out') is None and not (o.get('solve') == 'optimal' and o.get('out') is None):
            # (where the unsplit result cannot be decoded either, the failure is no inconsistency of the split)
            bad['extract_output fails on the split result'] = s.get('out_error')
        # ---- against the unsplit problem
        coupled_hard = any(a['kind'] == 'Storage' and a.get('start_level', 0.0) != a.get('end_level', 0.0) for a in sp['assets'])
        coupled = any(a['kind'] == 'Storage' or a.get('max_take') or a.get('min_take') for a in sp['assets'])
        special = any(k in SPECIAL for k in kinds)
        if s.get('solve') == 'optimal' and o.get('solve') == 'optimal' and not special and not coupled_hard and 'mapping index outside the variables' not in bad:
            ku, ks = var_keys(o['problem']['mapping']), var_keys(s['mapping'])
            inv = {}
            for j, k in ku.items():
                inv.setdefault(k, []).append(j)
            if len(ku) == len(o['problem']['c']) and len(ks) == len(s['c']) and all(len(v) == 1 for v in inv.values()) and set(inv) == set(ks.values()):
                xs_u = [0.0] * len(o['problem']['c'])
                for j, k in ks.items():
                    xs_u[inv[k][0]] = s['x'][j]
                P = o['problem']
                scale = 1 + max([abs(v) for v in xs_u] + [0])
                viol = [j for j in range(len(xs_u)) if xs_u[j] < P['l'][j] - 1e-6 * scale or xs_u[j] > P['u'][j] + 1e-6 * scale]
                if viol:
                    bad['split dispatch violates limits of the unsplit problem'] = viol[:5]
                tol = 1e-6 * (1 + abs(o['value']))
                if not coupled and abs(s['value'] - o['value']) > tol:
                    bad['uncoupled portfolio: split value differs from unsplit'] = [s['value'], o['value']]
                if coupled and s['value'] > o['value'] + tol:
                    bad['split value exceeds the unsplit optimum'] = [s['value'], o['value']]
                # certificate in Coq: the concatenated point is feasible for the unsplit problem and bounded by its certified optimum
                if o.get('duals') and not any(r['bool'] for r in P['mapping']):
                    eps = C.q(2e-6 * (1 + abs(o['value']) + max([abs(v) for v in P['b']] + [0])))
                    exprs.append('[check_opt %s %s %s %s; check_primal_eps %s %s %s; Qle_bool (value %s %s) (value %s %s + %s)]' % (
                        eps, C.lp(P), C.qvec(o['x']), C.qvec(duals_to_y(P, o['duals'])), eps, C.lp(P), C.qvec(xs_u),
                        C.lp(P), C.qvec(xs_u), C.lp(P), C.qvec(o['x']), eps))
                    owners.append(sp)
                ctx.count('compared with unsplit: ' + ('coupled (<=)' if coupled else 'uncoupled (=)'))
            else:
                ctx.count('variables of split and unsplit problem not in one-to-one correspondence (skipped)')
        if bad:
            ctx.violation('impl-violation', dict(payload, observed=bad, expected='C14'), trigger={'what': sorted(bad)[0]})
        e_ = util.split_map_expr(sp, s)
        if e_:
            sm_exprs.append(e_)
            sm_owners.append(sp)
        ctx.sample({'spec': sp})
    vals = C.run_coq_exprs('C14', 'Num LP Cert Mapping Dcf Corr', exprs, chunk=4)
    nm = ['unsplit optimum certified (check_opt)', 'concatenated interval solutions feasible for the unsplit problem (check_primal_eps)', 'split value <= unsplit value + eps']
    for sp, v in zip(owners, vals):
        ctx.cov['instances_validated'] += 1
        for k, ok in enumerate(v):
            if not ok:
                ctx.violation('validator-rejected', {'spec': sp, 'expected': nm[k], 'theorem_or_correspondence': 'C14_split_le_unsplit hypotheses'}, trigger={'what': nm[k]})
    ctx.cov['correspondence']['cases'] = len(exprs)
    # the joint mapping is the model's split_map of the interval problems (C14_steps_refer_to_original_grid speaks about split_map)
    vals = C.run_coq_exprs('C14m', 'Num LP Cert Mapping Dcf Grid Assets Periodic Portfolio Corr Build', sm_exprs, chunk=5)
    for sp, v in zip(sm_owners, vals):
        ctx.cov['correspondence']['cases'] += 1
        for nm, ok in zip(util.SPLIT_MAP_NAMES, v):
            if not ok:
                ctx.broken('correspondence-broken', {'spec': sp, 'theorem_or_correspondence': 'Portfolio.setup_split_optim_problem vs Split.split_map: ' + nm})
