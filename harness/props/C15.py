"""C15: fixing a time window pins exactly that part of the solution."""
import random
import common as C
import gen
from props import util

THEOREMS = ['C15_fix_pins_exactly', 'C15_fixed_variables_keep_their_value', 'C15_value_unchanged']
CFG = {'p_coarse': 0.3, 'p_periodic': 0.15, 'coarse_any': False, 'T': (4, 10), 'n_assets': (1, 4), 'nodes': (1, 3), 'p_window': 0.3, 'p_market': 0.9,
       'kinds': {'SimpleContract': 2, 'Contract': 2, 'Transport': 3, 'Storage': 2, 'MultiCommodityContract': 2, 'OrderBook': 2,
                 'ExtendedTransport': 1, 'ScaledAsset': 1, 'StructuredAsset': 1}}
NAMES = ['c', 'l', 'u', 'rows', 'mapping']


def run(ctx):
    if not ctx.proof_gate(THEOREMS, ['Fix.vo', 'Build.vo']):
        return
    n = 60 if ctx.tier == 'quick' else 400
    specs = util.corpus(ctx.prop) + gen.gen_many(ctx.seed, n, CFG, 'c15_')
    # date windows at the repeated / missing hour of a DST switch
    specs += gen.gen_many(ctx.seed, n // 3, dict(CFG, aware=True, tzs=['CET'], p_dst=1.0, freqs=['h', '30min'], T=(5, 10)), 'c15dst_')
    # portfolios with binary variables next to assets that have none (mapping column 'bool' partly missing)
    specs += gen.gen_many(ctx.seed, n // 3, dict(CFG, p_coarse=0.0, p_periodic=0.0, p_no_simult=0.7, p_max_store=0.3, n_assets=(2, 4), T=(4, 7),
                                                 kinds={'SimpleContract': 3, 'Transport': 2, 'Storage': 4, 'Contract': 1}), 'c15mip_')
    # the balance of one node is not modelled (skip_nodes), with assets that live at that node only
    skp = gen.gen_many(ctx.seed, n // 3, dict(CFG, nodes=(2, 3), p_coarse=0.0, p_periodic=0.0, n_assets=(2, 4), kinds={'SimpleContract': 4, 'Storage': 2, 'Transport': 2, 'Contract': 1}), 'c15sk_')
    for sp in skp:
        r_ = random.Random(str(sp['seed']) + '/skip')
        sp['opts']['skip_nodes'] = [r_.choice(sorted(set(nn for a in sp['assets'] for nn in a['nodes'])))]
    specs += skp
    # units with binary variables: solved as MIP, the window fixed, re-solved relaxed (make_soft_problem) - pinned flags stay pinned
    softp = gen.gen_many_plants(ctx.seed, n // 4, dict(CFG, freqs=['h'], units=['h'], tzs=[None], T=(5, 9), p_unaligned_end=0.0, p_profile=0.0, p_coarse=0.0, p_periodic=0.0, p_window=0.0), 'c15soft_')
    softp += gen.gen_many(ctx.seed, n // 4, dict(CFG, p_coarse=0.0, p_periodic=0.0, p_no_simult=0.9, p_full_exec=0.9, T=(4, 7), kinds={'Storage': 3, 'OrderBook': 3, 'SimpleContract': 2}), 'c15softm_')
    for sp in softp:
        sp['opts']['fix'] = {'mode': 'prefix', 'k': int(sp['id'].split('_')[-1]) % 4 + 1, 'soft': True}
    specs += softp
    for i, sp in enumerate(specs):
        rng = random.Random(str(sp['seed']) + '/fix')
        if 'fix' not in sp['opts']:
            mode = 'date' if sp['id'].startswith('c15dst_') and rng.random() < 0.7 else rng.choice(['prefix', 'prefix', 'subset', 'index', 'date', 'boollist'])
            sp['opts']['fix'] = {'mode': mode, 'k': rng.randint(0, 20)}
    specs = ctx.specs(specs)
    res = C.run_impl('fixwindow', specs)
    exprs, owners = [], []
    for sp, o in zip(specs, res):
        ctx.count('status:' + str(o.get('status')))
        if o.get('status') != 'ok':
            continue
        ctx.count('mode:' + o['mode'])
        for a in sp['assets']:
            ctx.count('kind:' + a['kind'])
        if 'fixed' not in o:
            ctx.violation('impl-violation', {'spec': sp, 'observed': o.get('fixed_error'), 'expected': 'set-up with a fixed window works for every portfolio'},
                          trigger={'what': 'fix set-up fails'})
            continue
        ctx.cov['impl_oracle_evaluations'] += 1
        P, F, x = o['problem'], o['fixed'], o['x']
        steps = set(o['steps'])
        pinned = set(r['index'] for r in P['mapping'] if r['time_step'] in steps)
        bad = {}
        for j in range(len(x)):
            if j in pinned:
                if F['l'][j] != x[j] or F['u'][j] != x[j]:
                    bad.setdefault('variable of the window not pinned (j, l, u, x_prev)', []).append([j, F['l'][j], F['u'][j], x[j]])
            elif F['l'][j] != P['l'][j] or F['u'][j] != P['u'][j]:
                bad.setdefault('variable outside the window changed (j, l, u, l0, u0)', []).append([j, F['l'][j], F['u'][j], P['l'][j], P['u'][j]])
        if F['c'] != P['c'] or F['b'] != P['b'] or F['rows'] != P['rows'] or F['cType'] != P['cType']:
            bad['costs or rows changed'] = True
        scale = 1 + max([abs(v) for v in x] + [0])
        if o.get('solve2') != 'optimal':
            bad['re-optimisation with unchanged prices'] = o.get('solve2')
        else:
            # (a relaxed re-solve may find a better value outside the window: only the pinned part is compared then)
            if not sp['opts']['fix'].get('soft') and abs(o['value2'] - o['value']) > 1e-6 * (1 + abs(o['value'])):
                bad['optimal value changed with unchanged prices'] = [o['value'], o['value2']]
            off = [[j, x[j], o['x2'][j]] for j in pinned if abs(o['x2'][j] - x[j]) > 1e-6 * scale]
            if off:
                bad['fixed variable moved (unchanged prices)'] = off[:5]
        if o.get('solve3') == 'optimal':
            off = [[j, x[j], o['x3'][j]] for j in pinned if abs(o['x3'][j] - x[j]) > 1e-6 * scale]
            if off:
                bad['fixed variable moved (changed prices)'] = off[:5]
            l3, u3 = o['fixed3_lu']
            free = [j for j in range(len(x)) if j not in pinned and (l3[j] != P['l'][j] or u3[j] != P['u'][j])]
            if free:
                bad['variable outside the window not free (changed prices)'] = free[:5]
        elif 'fixed3_error' in o:
            bad['set-up with changed prices'] = o['fixed3_error']
        ru = o.get('reuse')
        if ru and 'error' not in ru:
            if not ru['dict_unchanged']:
                bad['the caller\'s dictionary was rewritten (date -> mask)'] = True
            if not ru['same_bounds']:
                bad['the same dictionary used on the next grid pins other steps than a new dictionary'] = True
        if bad:
            ctx.violation('impl-violation', {'spec': sp, 'window_steps': sorted(steps), 'observed': bad,
                                             'expected': 'variables with a mapping row in the window: l = u = previous value; all others untouched; optimum unchanged'},
                          trigger={'what': sorted(bad)[0]})
        exprs.append('(c15_case %s %s %s %s %s %s)' % (C.lst([C.nat(t) for t in sorted(steps)]), C.qvec(x), C.lp(P), C.mapping(P['mapping']),
                                                      C.lp(F), C.mapping(F['mapping'])))
        owners.append(sp)
        ctx.sample({'spec': sp})
    vals = C.run_coq_exprs('C15', 'Num LP Cert Mapping Dcf Grid Assets Periodic Portfolio Corr Build', exprs, chunk=6)
    for sp, v in zip(owners, vals):
        ctx.cov['correspondence']['cases'] += 1
        ctx.cov['correspondence']['components_compared'] += 5
        ctx.cov['instances_validated'] += 1
        for nm, ok in zip(NAMES, v):
            if not ok:
                ctx.cov['correspondence']['disagreements'] += 1
                ctx.broken('correspondence-broken', {'spec': sp, 'theorem_or_correspondence': 'Portfolio.setup_optim_problem(fix_time_window) vs Portfolio.fix_window: ' + nm})
