"""C16: scaled and structured assets are equivalent to what they wrap."""
import random, copy
import common as C
import gen
import modelspec as M
from props import util

THEOREMS = ['C16_scaled_fixed_equiv', 'C16_structured_flatten_equiv', 'C16_external_rows']
CFG = {'p_coarse': 0.0, 'p_periodic': 0.0, 'T': (3, 8), 'n_assets': (1, 3), 'nodes': (2, 3), 'p_window': 0.2, 'p_market': 0.95, 'p_wacc': 0.3,
       'p_window_scaled_base': 0.3, 'p_inflow': 0.4, 'p_struct_inside': 0.3, 'p_wacc_scaled': 0.3, 'p_struct_scaled': 0.3,
       'kinds': {'ScaledAsset': 4, 'StructuredAsset': 4, 'SimpleContract': 1, 'Transport': 1, 'Storage': 1}}


def scale_base(b, k, prices, memo):
    """the base asset with all capacities multiplied by k"""
    from props.C12 import scale_param
    b = copy.deepcopy(b)
    kind = b['kind']
    if kind in ('SimpleContract', 'Contract'):
        for key in ('min_cap', 'max_cap'):
            if key in b:
                b[key] = scale_param(b[key], k, prices, memo)
        for key in ('max_take', 'min_take'):
            if b.get(key):
                b[key] = dict(b[key], values=[v * k for v in b[key]['values']])
    elif kind == 'Transport':
        b['min_cap'] = b.get('min_cap', 0.0) * k
        b['max_cap'] = b.get('max_cap', 0.0) * k
    elif kind == 'Storage':
        for key in ('size', 'cap_in', 'cap_out', 'start_level', 'end_level', 'inflow'):
            if key in b:
                b[key] = b[key] * k
    else:
        raise ValueError(kind)
    return b


def scaled_at(sp, scale_of):
    """variant with every ScaledAsset held at a fixed scale"""
    v = copy.deepcopy(sp)
    for a in v['assets']:
        if a['kind'] == 'ScaledAsset':
            a['min_scale'] = a['max_scale'] = scale_of(a)
    v['id'] = sp['id'] + '+fixed'
    return v


def plain_equivalent(sp):
    """every ScaledAsset (at a fixed scale s) replaced by its base asset with capacities x s/S; returns (spec, fixed costs)"""
    v = copy.deepcopy(sp)
    g = sp['grid']
    pts = M.grid_pts(g)
    us = M.unit_secs(g.get('unit', 'h'))
    tz = g.get('tz')
    memo = {}
    fix = 0.0
    out = []
    for a in v['assets']:
        if a['kind'] != 'ScaledAsset':
            out.append(a)
            continue
        s = a['min_scale']
        k = s / a.get('norm_scale', 1.0)
        b = scale_base(a['base'], k, v['prices'], memo)
        b['name'] = a['name']
        out.append(b)
        # active duration of the scaled asset: its own window (it has none in the generator: the whole horizon)
        lo = M.inst(a['start'], tz) if a.get('start') else None
        hi = M.inst(a['end'], tz) if a.get('end') else None
        dur = sum(pts[t + 1] - pts[t] for t in range(len(pts) - 1) if (lo is None or lo <= pts[t]) and (hi is None or pts[t] < hi)) / us
        fix += s * a.get('fix_costs', 0.0) * dur
    v['assets'] = out
    v['id'] = sp['id'] + '+plain'
    return v, fix


def flattened(sp):
    """every StructuredAsset replaced by the assets it wraps"""
    v = copy.deepcopy(sp)
    out = []
    tz = v['grid'].get('tz')
    for a in v['assets']:
        if a['kind'] == 'StructuredAsset':
            for b in a['assets']:
                # joint life time: where both the structure and the wrapped asset name a start (end), the later (earlier) one counts
                if a.get('start') and b.get('start') and M.inst(a['start'], tz) > M.inst(b['start'], tz):
                    b['start'] = a['start']
                if a.get('end') and b.get('end') and M.inst(a['end'], tz) < M.inst(b['end'], tz):
                    b['end'] = a['end']
        out.extend(a['assets'] if a['kind'] == 'StructuredAsset' else [a])
    v['assets'] = out
    v['id'] = sp['id'] + '+flat'
    return v


def run(ctx):
    if not ctx.proof_gate(THEOREMS, ['ScaledProofs.vo', 'StructProofs.vo']):
        return
    n = 60 if ctx.tier == 'quick' else 400
    # structures with an own life time covering the horizon, wrapping assets that end (start) inside it
    sw = gen.gen_many(ctx.seed, n // 3, dict(CFG, p_struct_window=1.0, p_struct_inside=0.0, p_window_inner=0.8, kinds={'StructuredAsset': 4, 'SimpleContract': 1}), 'c16sw_')
    specs = ctx.specs(util.corpus(ctx.prop) + gen.gen_many(ctx.seed, n, CFG, 'c16_') + sw)
    base = [sp for sp in specs if '+' not in sp['id']]
    jobs = []     # (kind, base index, spec, extra)
    for i, sp in enumerate(base):
        rng = random.Random(str(sp['seed']) + '/c16')
        has_s = any(a['kind'] == 'ScaledAsset' for a in sp['assets'])
        has_t = any(a['kind'] == 'StructuredAsset' for a in sp['assets'])
        if has_s:
            # fixed scales: the boundaries, and a point inside the range
            picks = {a['name']: rng.choice([a['min_scale'], a['max_scale'], 0.5 * (a['min_scale'] + a['max_scale'])]) for a in sp['assets'] if a['kind'] == 'ScaledAsset'}
            fx = scaled_at(sp, lambda a: picks[a['name']])
            jobs.append(('fixed', i, fx, None))
            if not has_t and all(picks[a['name']] > 0 for a in sp['assets'] if a['kind'] == 'ScaledAsset'):
                pl, fix = plain_equivalent(fx)
                jobs.append(('plain', i, pl, fix))
        if has_t:
            jobs.append(('flat', i, flattened(sp), None))
    for sp in base:
        if any(a['kind'] == 'StructuredAsset' for a in sp['assets']) and sp['grid'].get('tz') is None:
            sp['opts']['struct_regrid'] = True
    res = C.run_impl('portfolio', base + [j[2] for j in jobs])
    parts = C.run_impl('assets', base)
    k0 = len(base)
    by = {}
    for (kind, i, vsp, extra), o in zip(jobs, res[k0:]):
        by.setdefault(i, {})[kind] = (vsp, extra, o)
    for i, sp in enumerate(base):
        ob = res[i]
        ctx.count('status:' + str(ob.get('status')))
        for a in sp['assets']:
            ctx.count('kind:' + a['kind'] + (':' + a['base']['kind'] if a['kind'] == 'ScaledAsset' else ''))
        if ob.get('status') != 'ok':
            ctx.count('setup_error:' + str(ob.get('error'))[:60])
        for rg_ in ob.get('regrid') or []:
            if 'same' in rg_:
                ctx.cov['impl_oracle_evaluations'] += 1
                ctx.count('structure moved to the next horizon and set up without a grid')
                if not rg_['same']:
                    ctx.violation('impl-violation', {'spec': sp, 'asset': rg_['name'], 'observed': {'problem differs from fresh objects on the new grid (variables)': rg_.get('sizes')},
                                                     'expected': 'the structure wraps its assets on the grid it currently has'}, trigger={'what': 'structure on a new grid'})
        v = by.get(i, {})
        tol = lambda x: 1e-6 * (1 + abs(x))
        # ---- scaled at a fixed scale = base with scaled capacities, less fixed costs
        if 'fixed' in v and 'plain' in v:
            ctx.cov['impl_oracle_evaluations'] += 1
            (fsp, _, of), (psp, fix, op) = v['fixed'], v['plain']
            bad = {}
            if of.get('status') != op.get('status'):
                bad['set-up status (scaled at fixed scale / plain equivalent)'] = [of.get('status'), of.get('error'), op.get('status'), op.get('error')]
            elif of.get('status') == 'ok':
                if of.get('solve') != op.get('solve'):
                    bad['solver status'] = [of.get('solve'), op.get('solve')]
                elif of.get('solve') == 'optimal' and abs(of['value'] - (op['value'] - fix)) > tol(of['value']):
                    bad['optimum'] = {'scaled at fixed scale': of['value'], 'base with capacities x s/S': op['value'], 'fixed costs s x rate x duration': fix}
            if bad:
                ctx.violation('impl-violation', {'spec': fsp, 'plain_spec': psp, 'observed': bad,
                                                 'expected': 'scaled asset at fixed scale s = base asset with capacities x s/S, less s x cost rate x duration'},
                              trigger={'what': 'scaled fixed: ' + sorted(bad)[0]})
        # ---- free scale: the optimum is the best over the allowed range
        if 'fixed' in v and ob.get('status') == 'ok' and ob.get('solve') == 'optimal':
            ctx.cov['impl_oracle_evaluations'] += 1
            fsp, _, of = v['fixed']
            if of.get('status') == 'ok' and of.get('solve') == 'optimal' and of['value'] > ob['value'] + tol(ob['value']):
                ctx.violation('impl-violation', {'spec': sp, 'fixed_spec': fsp, 'observed': {'free scale optimum': ob['value'], 'optimum at a fixed admissible scale': of['value']},
                                                 'expected': 'free-scale optimum >= optimum at every admissible fixed scale'}, trigger={'what': 'scaled free below fixed'})
        # ---- structured = flat
        if 'flat' in v:
            ctx.cov['impl_oracle_evaluations'] += 1
            fsp, _, of = v['flat']
            bad = {}
            if ob.get('status') != of.get('status'):
                bad['set-up status (structured / flat)'] = [ob.get('status'), ob.get('error'), of.get('status'), of.get('error')]
            elif ob.get('status') == 'ok':
                if ob.get('solve') != of.get('solve'):
                    bad['solver status'] = [ob.get('solve'), of.get('solve')]
                elif ob.get('solve') == 'optimal' and abs(ob['value'] - of['value']) > tol(ob['value']):
                    bad['optimum'] = {'with structured assets': ob['value'], 'flat portfolio': of['value']}
                B, F = ob['problem'], of['problem']
                if sorted(round(x, 9) for x in B['c']) != sorted(round(x, 9) for x in F['c']) or len(B['rows']) != len(F['rows']) or sorted(B['cType']) != sorted(F['cType']):
                    bad['problem shape (costs, number and classes of rows)'] = [len(B['c']), len(F['c']), len(B['rows']), len(F['rows'])]
            if bad:
                ctx.violation('impl-violation', {'spec': sp, 'flat_spec': fsp, 'observed': bad, 'expected': 'same optimum and external dispatch as the flat portfolio'},
                              trigger={'what': 'structured: ' + sorted(bad)[0]})
        ctx.sample({'spec': sp})
    # second pass for free scales: re-run at the scale EAO chose -> must reproduce the free optimum
    again = []
    for i, sp in enumerate(base):
        ob = res[i]
        if ob.get('status') == 'ok' and ob.get('solve') == 'optimal' and any(a['kind'] == 'ScaledAsset' and a['min_scale'] != a['max_scale'] for a in sp['assets']):
            chosen = {}
            for r in ob['problem']['mapping']:
                if r['type'] == 'size':
                    chosen[r['asset']] = ob['x'][r['index']]
            if all(a['name'] in chosen for a in sp['assets'] if a['kind'] == 'ScaledAsset'):
                fx = scaled_at(sp, lambda a: float(chosen[a['name']]))
                fx['id'] = sp['id'] + '+chosen'
                again.append((i, fx))
    if again:
        r2 = C.run_impl('portfolio', [a[1] for a in again])
        for (i, fx), o2 in zip(again, r2):
            ctx.cov['impl_oracle_evaluations'] += 1
            ob = res[i]
            if o2.get('status') == 'ok' and o2.get('solve') == 'optimal' and abs(o2['value'] - ob['value']) > 1e-5 * (1 + abs(ob['value'])):
                ctx.violation('impl-violation', {'spec': base[i], 'fixed_spec': fx, 'observed': {'free scale optimum': ob['value'], 'optimum at the reported scale': o2['value']},
                                                 'expected': 'the free-scale optimum is attained at the reported scale'}, trigger={'what': 'scaled free not attained'})
    util.asset_corr(ctx, base, parts, 'C16', want=lambda a: a['kind'] in ('ScaledAsset', 'StructuredAsset'))
