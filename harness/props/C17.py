"""C17: stochastic and robust problems respect their defining bounds."""
import random
import numpy as np
import common as C
import gen
from props import util

THEOREMS = ['C17_scenarios_share_the_present', 'C17_feasible_points_project', 'C17_at_most_mean_of_scenario_optima', 'C17_at_least_every_fixed_present',
            'C17_identical_scenarios', 'C17_extended_mapping_wf', 'C17_extended_mapping_matches_columns', 'C17_robust_worst_case_ge_every_point', 'C17_robust_le_smallest_scenario_optimum']
CFG = {'p_coarse': 0.0, 'p_periodic': 0.0, 'T': (4, 8), 'n_assets': (1, 4), 'nodes': (1, 3), 'p_window': 0.3, 'p_market': 0.95, 'p_wacc': 0.6,
       'p_cap_key': 0.0, 'tzs': [None],
       'kinds': {'SimpleContract': 2, 'Contract': 2, 'Transport': 2, 'Storage': 4, 'MultiCommodityContract': 1, 'ExtendedTransport': 1, 'StructuredAsset': 3}}


def near_neutral_specs(seed, n, tag):
    """a purchase and a sale at one node; in one scenario trading loses a tiny amount per unit (prices 1/100 apart), in the other it
    earns a lot: the robust solution must not give up worst-case value for average value"""
    out = []
    for i in range(n):
        rng = random.Random('%s/%s/%d' % (seed, tag, i))
        T = rng.randint(3, 6)
        g = {'start': '2022-02-01 00:00', 'freq': 'h', 'unit': 'h', 'tz': None, 'T': T}
        import pandas as pd
        g['end'] = (pd.Timestamp(g['start']) + pd.Timedelta(hours=T)).strftime('%Y-%m-%d %H:%M')
        lvl = gen.k8(rng, 20, 60)
        eps = rng.choice([0.01, 0.005, 0.02])
        cap = gen.k8(rng, 5, 15)
        prices = {'p0': [lvl + eps] * T, 'p1': [lvl] * T}
        assets = [{'kind': 'SimpleContract', 'name': 'buy', 'nodes': ['N0'], 'price': 'p0', 'min_cap': 0.0, 'max_cap': cap},
                  {'kind': 'SimpleContract', 'name': 'sell', 'nodes': ['N0'], 'price': 'p1', 'min_cap': -cap, 'max_cap': 0.0}]
        far = {'p0': [lvl * 0.6] * T, 'p1': [lvl * 1.1] * T}
        near = {'p0': [lvl + eps] * T, 'p1': [lvl] * T}
        ex = [near, far] if i % 2 else [far, near]
        out.append({'grid': g, 'prices': prices, 'assets': assets, 'id': '%s%d' % (tag, i), 'seed': '%s/%s/%d' % (seed, tag, i),
                    'opts': {'slp': {'n': 2, 'kf': 1, 'identical': False, 'explicit': ex, 'robust_without_grid': bool(i % 3)}}})
    return out


def run(ctx):
    if not ctx.proof_gate(THEOREMS, ['SLP.vo', 'SLPProofs.vo', 'Build.vo']):
        return
    n = 40 if ctx.tier == 'quick' else 300
    specs = util.corpus(ctx.prop) + gen.gen_many(ctx.seed, n, CFG, 'c17_')
    # variables that span several steps across the present / future boundary: block orders, contracts on a coarser frequency
    specs += gen.gen_many(ctx.seed, n // 2, dict(CFG, p_coarse=0.5, coarse_any=False, T=(6, 8), freqs=['h'],
                                                 kinds={'SimpleContract': 2, 'Contract': 1, 'Transport': 1, 'Storage': 1, 'OrderBook': 4}), 'c17blk_')
    specs += near_neutral_specs(ctx.seed, 8 if ctx.tier == 'quick' else 40, 'c17nn_')
    # as many scenarios as the problem has variables (a square array of cost samples)
    sq = gen.gen_many(ctx.seed, 8 if ctx.tier == 'quick' else 40, dict(CFG, T=(3, 4), n_assets=(1, 1), nodes=(1, 2), p_coarse=0.0, p_market=1.0,
                                                                     kinds={'Transport': 2, 'SimpleContract': 2}), 'c17sq_')
    for sp in sq:
        sp['opts']['slp'] = {'n': 'nvars', 'kf': 1, 'identical': False, 'robust_without_grid': False}
    specs += sq
    for sp in specs:
        if 'slp' not in sp['opts']:
            rng = random.Random(str(sp['seed']) + '/slp')
            sp['opts']['slp'] = {'n': rng.randint(1, 3), 'kf': rng.randint(1, sp['grid']['T'] - 1), 'identical': rng.random() < 0.2,
                                 'robust_without_grid': rng.random() < 0.5}
            r_ = rng.random()
            if r_ < 0.3:
                sp['opts']['slp'].update(ordered=True, identical=False, n=rng.randint(2, 3))
            elif r_ < 0.5:
                sp['opts']['slp'].update(decades=True, identical=False, n=rng.randint(1, 3))
            elif r_ < 0.7:
                sp['opts']['slp'].update(near_neutral=True, identical=False, n=rng.randint(2, 3))
    specs = ctx.specs(specs)
    res = C.run_impl('slp', specs)
    exprs, owners = [], []
    mexprs, mowners = [], []
    for sp, o in zip(specs, res):
        ctx.count('status:' + str(o.get('status')))
        if o.get('status') != 'ok':
            continue
        so = dict(sp['opts']['slp'])
        if so.get('n') == 'nvars':
            so['n'] = int(o.get('n_samples', 0))
        for a in sp['assets']:
            ctx.count('kind:' + a['kind'])
        ctx.count('samples:%d%s' % (so['n'], ' identical' if so.get('identical') else ''))
        opts = [s.get('value') for s in o['scen']]
        payload = {'spec': sp}
        tolv = lambda v: 1e-6 * (1 + abs(v))
        # ---------------- two-stage problem
        if 'slp_error' in o:
            if o['future'] is not None:
                ctx.violation('impl-violation', dict(payload, observed=o['slp_error'], expected='make_slp works for every portfolio'), trigger={'what': 'make_slp fails'})
            else:
                ctx.count('make_slp not applicable: unmapped variables')
        elif o['slp'].get('solve') == 'optimal' and None not in opts:
            ctx.cov['impl_oracle_evaluations'] += 1
            v = o['slp']['value']
            bad = {}
            m = sum(opts) / len(opts)
            if v > m + tolv(m):
                bad['two-stage optimum above the mean of the scenario optima'] = [v, opts]
            for f in o['fixed']:
                if None in f['values']:
                    continue
                ev = sum(f['values']) / len(f['values'])
                if v < ev - tolv(ev):
                    bad['two-stage optimum below the expected value of fixing the present to scenario %d' % f['k']] = [v, ev, f['values']]
            if so.get('identical') and abs(v - opts[0]) > tolv(v):
                bad['identical scenarios: two-stage optimum differs from the deterministic one'] = [v, opts[0]]
            nf = sum(o['future']) if o['future'] else None
            if nf is not None and len(o['slp']['c']) != len(o['base']['c']) + so['n'] * nf:
                bad['number of variables'] = [len(o['slp']['c']), len(o['base']['c']), so['n'], nf]
            if bad:
                ctx.violation('impl-violation', dict(payload, observed=bad, expected='C17 bounds of the two-stage problem'), trigger={'what': sorted(bad)[0]})
        elif o['slp'].get('solve') not in (None, 'optimal') and None not in opts:
            ctx.violation('impl-violation', dict(payload, observed={'two-stage problem': o['slp'].get('solve'), 'scenario optima': opts},
                                                 expected='the two-stage problem is feasible when every scenario is (take one scenario solution as present)'),
                          trigger={'what': 'slp infeasible'}) if all(None not in f['values'] for f in o['fixed']) and o['fixed'] else None
        # correspondence of the extended problem
        if 'slp' in o and o.get('future') is not None and 'cost_samples' in o:
            exprs.append('(c17_case %s %s %s %s)' % (C.lp(o['base']), C.lst([C.b(b) for b in o['future']]), C.lst([C.qvec(c) for c in o['cost_samples']]), C.lp(o['slp'])))
            owners.append(sp)
            if o.get('slp_mapping') is not None:
                mexprs.append('(c17_map_case %s %s %s %s %s)' % (C.mapping(o['base']['mapping']), C.lst([C.b(b) for b in o['future']]), C.nat(len(o['cost_samples'])),
                                                                C.nat(len(o['base']['c'])), C.mapping(o['slp_mapping'])))
                mowners.append(sp)
        # ---------------- robust target
        rb = o.get('robust') or {}
        if rb.get('solve') == 'crash':
            ctx.violation('impl-violation', dict(payload, observed=rb.get('error'), expected='robust optimisation works'), trigger={'what': 'robust crash'})
        elif rb.get('solve') == 'optimal':
            ctx.cov['impl_oracle_evaluations'] += 1
            # true scenario costs: the cost vectors of freshly built scenario problems (not the ones handed to the optimiser)
            cvs = [s['c'] for s in o['scen'][1:] if 'c' in s]
            if len(cvs) == so['n'] and cvs:
                worst = lambda x: min(-float(np.dot(c, x)) for c in cvs)
                wr = worst(rb['x'])
                bad = {}
                for k, xk in enumerate(o['xs']):
                    if xk is not None and wr < worst(xk) - tolv(wr):
                        bad['worst case of the robust solution below that of the scenario-%d solution' % k] = [wr, worst(xk)]
                sc_opts = [s['value'] for s in o['scen'][1:]]
                if wr > min(sc_opts) + tolv(wr):
                    bad['worst case of the robust solution above the smallest scenario optimum'] = [wr, sc_opts]
                if bad:
                    ctx.violation('impl-violation', dict(payload, observed=bad, expected='C17 bounds of the robust problem'), trigger={'what': sorted(bad)[0]})
        ctx.sample({'spec': sp})
    for sp, ok in zip(mowners, C.run_coq_exprs('C17m', 'Num LP Cert Mapping Dcf Grid Assets Periodic Portfolio Corr Build', mexprs, chunk=6)):
        ctx.cov['correspondence']['cases'] += 1
        ctx.cov['correspondence']['components_compared'] += 1
        if not ok:
            ctx.cov['correspondence']['disagreements'] += 1
            ctx.broken('correspondence-broken', {'spec': sp, 'theorem_or_correspondence': 'make_slp mapping vs SLPProofs.slp_map'})
    vals = C.run_coq_exprs('C17', 'Num LP Cert Mapping Dcf Grid Assets Periodic Portfolio Corr Build', exprs, chunk=5)
    names = ['c (present: mean over the samples, futures / (nS+1))', 'l', 'u', 'rows (present shared, future block per scenario)']
    for sp, v in zip(owners, vals):
        ctx.cov['correspondence']['cases'] += 1
        ctx.cov['correspondence']['components_compared'] += 4
        for nm, ok in zip(names, v):
            if not ok:
                ctx.cov['correspondence']['disagreements'] += 1
                ctx.broken('correspondence-broken', {'spec': sp, 'theorem_or_correspondence': 'make_slp vs SLP.slp_lp: ' + nm})
