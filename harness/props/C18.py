"""C18: reported nodal prices are marginal values (supergradients) of the optimum."""
import common as C
import gen
from props import util
from props.C03 import duals_to_y

THEOREMS = ['C18_supergradient', 'C18_nodal_price']
CFG = {'p_coarse': 0.15, 'p_periodic': 0.1, 'T': (3, 7), 'n_assets': (1, 4), 'nodes': (1, 3), 'p_market': 0.95,
       'kinds': {'SimpleContract': 2, 'Contract': 2, 'Transport': 3, 'Storage': 3,
                 'MultiCommodityContract': 2, 'OrderBook': 1, 'ExtendedTransport': 1, 'StructuredAsset': 2, 'ScaledAsset': 1}}


def run(ctx):
    if not ctx.proof_gate(THEOREMS):
        return
    n = 50 if ctx.tier == 'quick' else 400
    specs = util.corpus(ctx.prop) + gen.gen_many(ctx.seed, n, CFG, 'c18_')
    # nodes that have no dispatch in some steps (only windowed assets): gaps in the nodal rows
    specs += gen.gen_many(ctx.seed, n // 2, dict(CFG, p_market=0.5, p_window=0.8, window_kinds=['inside', 'left', 'right']), 'c18g_')
    # prices in other units (cost coefficients of the order 1e4 .. 1e5)
    specs += util.rescaled(gen.gen_many(ctx.seed, n // 3, dict(CFG, p_coarse=0.0, p_periodic=0.0), 'c18sc_'), 2.0 ** 13, 1.0)
    for sp in specs:
        sp['opts']['n_inj'] = 3 if ctx.tier == 'quick' else 8
    # split optimisation: prices of every interval land at the original steps (intervals of unequal length: partial last interval, DST)
    spl = gen.gen_many(ctx.seed, n // 2, dict(CFG, p_coarse=0.0, p_periodic=0.0, freqs=['h', '30min'], T=(5, 11), tzs=[None, 'CET'], p_dst=0.8, p_unaligned_end=0.0), 'c18s_')
    for sp in spl:
        sp['opts']['split'] = {'h': '3h', '30min': '2h'}[sp['grid']['freq']]
        sp['opts']['n_inj'] = 0
    specs += spl
    # node names contained in each other (hub / hub_s / hub_south), in any order of first appearance
    import random, copy
    from props.C09 import rename_assets, asset_names, node_names
    sub = []
    for sp in gen.gen_many(ctx.seed, n // 2, dict(CFG, nodes=(2, 3), p_coarse=0.0, p_periodic=0.0), 'c18nm_'):
        rng = random.Random(str(sp['seed']) + '/names')
        pool = rng.choice([['hub', 'hub_s', 'hub_south'], ['N', 'N1', 'N11'], ['1', '11', '21']])
        rng.shuffle(pool)
        nn = node_names(sp['assets'])
        if len(nn) > len(pool):
            continue
        rename_assets(sp['assets'], {a: a for a in asset_names(sp['assets'])}, dict(zip(nn, pool)))
        sp['opts']['n_inj'] = 3 if ctx.tier == 'quick' else 8
        sub.append(sp)
    specs += sub
    # the balance of one node is not modelled (skip_nodes): prices of the other nodes, whatever the position of the skipped node
    skp = gen.gen_many(ctx.seed, n // 2, dict(CFG, nodes=(2, 3), p_coarse=0.0, p_periodic=0.0, n_assets=(2, 4), p_market=0.7,
                                              kinds={'SimpleContract': 2, 'Transport': 4, 'Storage': 2, 'MultiCommodityContract': 1}), 'c18sk_')
    for sp in skp:
        rng = random.Random(str(sp['seed']) + '/skip')
        nn = node_names(sp['assets'])
        sp['opts']['skip_nodes'] = [nn[0] if rng.random() < 0.6 else rng.choice(nn)]
        sp['opts']['n_inj'] = 4 if ctx.tier == 'quick' else 8
    specs += skp
    # steps that are not one main time unit long (prices are per unit of volume, whatever the step length)
    dtn = gen.gen_many(ctx.seed, n // 2, dict(CFG, freqs=['15min', '30min', '2h', 'd'], units=['h', 'h', 'd'], p_coarse=0.0, p_periodic=0.0, tzs=[None]), 'c18dt_')
    for sp in dtn:
        sp['opts']['n_inj'] = 4 if ctx.tier == 'quick' else 8
    specs += dtn
    # rolling re-optimisation: first steps fixed to the solution, new prices behind them
    rf = gen.gen_many(ctx.seed, n // 2, dict(CFG, nodes=(2, 3), p_coarse=0.0, p_periodic=0.0, kinds={'SimpleContract': 2, 'Transport': 3, 'Storage': 3, 'Contract': 1}), 'c18rf_')
    for i_, sp in enumerate(rf):
        sp['opts']['refix'] = 2 + i_ % 4
        sp['opts']['refix_mode'] = 'prices'
        sp['opts']['n_inj'] = 0
    specs += rf
    # prices in small units (EUR per Wh: marginal values of the order 1e-6 .. 1e-5, not zero)
    tiny = util.rescaled(gen.gen_many(ctx.seed, n // 3, dict(CFG, p_coarse=0.0, p_periodic=0.0, kinds={'SimpleContract': 3, 'Transport': 2, 'Storage': 2}), 'c18wh_'), 2.0 ** -20, 1.0)
    for sp in tiny:
        sp['opts']['n_inj'] = 3
        # (the default interior-point solver does not reach its usual accuracy at this scale, on the unchanged code either: the exact
        #  simplex / HiGHS interface is chosen, as a user working in such units would)
        sp['opts']['optimize'] = {'solver': 'SCIPY'}
    specs += tiny
    specs = ctx.specs(specs)
    res = C.run_impl('prices', specs)
    exprs, owners = [], []
    for sp, o in zip(specs, res):
        ctx.count('status:' + str(o.get('status')))
        if o.get('status') != 'ok':
            continue
        ctx.count('solve:' + str(o.get('solve')))
        if o.get('solve') != 'optimal' or not o.get('duals') or not o.get('out') or not o['out'].get('prices'):
            continue
        prob = o['problem']
        pr = o['out']['prices']
        if o.get('out_first') and o['out_first'].get('prices') != pr:
            ctx.violation('impl-violation', {'spec': sp, 'observed': {'first extraction': o['out_first'].get('prices'), 'second extraction': pr},
                                             'expected': 'decoding the same result twice gives the same price table'}, trigger={'what': 'extraction not repeatable'})
        y = duals_to_y(prob, o['duals'])
        # multipliers of nodal rows are READ FROM THE OUTPUT TABLE: y_N := -price(node, step)
        # the portfolio's own nodal rows are the last 'N' rows (a structured asset brings the nodal rows of its inner nodes along as asset rows;
        # those keep the solver's multipliers)
        nrows = [i for i, t in enumerate(prob['cType']) if t == 'N']
        missing = False
        if len(nrows) < len(prob['map_nodal_restr']):
            ctx.violation('impl-violation', {'spec': sp, 'observed': {'nodal rows': len(nrows), 'recorded (step,node) pairs': len(prob['map_nodal_restr'])},
                                             'expected': 'a nodal row for every recorded (step, node), so that duals can be assigned to prices'},
                          trigger={'what': 'record-mismatch'})
            continue
        nrows = nrows[len(nrows) - len(prob['map_nodal_restr']):]
        for k, i in enumerate(nrows):
            t, node = prob['map_nodal_restr'][k]
            col = pr.get('nodal price: ' + node)
            if col is None or col[t] is None:
                missing = True
                break
            y[i] = -col[t]
        if missing:
            ctx.violation('impl-violation', {'spec': sp, 'observed': 'no nodal price reported for a nodal row',
                                             'expected': 'a price per (node, step) with a nodal restriction'}, trigger={'what': 'missing'})
            continue
        scale = 1 + abs(o['value'])
        eps = 2e-6 * scale
        exprs.append('(check_opt %s %s %s %s)' % (C.q(eps), C.lp(prob), C.qvec(o['x']), C.qvec(y)))
        owners.append((sp, o))
        ctx.sample({'id': sp['id'], 'assets': sp['assets'], 'grid': sp['grid']})
        # oracle on the implementation: re-optimise with injections
        for inj in o.get('injections', []):
            ctx.cov['impl_oracle_evaluations'] += 1
            if inj['value'] is None:
                ctx.count('injection:' + inj['status'])
                continue
            price = pr['nodal price: ' + inj['node']][inj['step']]
            # (the solver's tolerance is relative to the magnitudes involved: values, and price x injection on rescaled instances)
            if inj['value'] > o['value'] + price * inj['d'] + 1e-5 * scale + 1e-7 * (abs(price * inj['d']) + abs(inj['value'])):
                ctx.violation('impl-violation', {'spec': sp, 'observed': {'injection': inj, 'price': price, 'value': o['value']},
                                                 'expected': 'value(d) <= value + price*d'}, trigger={'what': 'supergradient'})
        # ---- rolling use: the first steps fixed to this solution, new prices behind the window - the prices reported for the re-optimised
        # problem must certify its optimum as well (nodal rows whose variables are all fixed included)
        q = o.get('refix')
        if isinstance(q, dict) and q.get('solve') == 'optimal' and q.get('problem') and q.get('duals') and (q.get('out') or {}).get('prices'):
            P4, pr4 = q['problem'], q['out']['prices']
            y4 = duals_to_y(P4, q['duals'])
            nr4 = [i for i, t in enumerate(P4['cType']) if t == 'N']
            rec4 = P4['map_nodal_restr']
            ok4 = len(nr4) >= len(rec4)
            if ok4:
                nr4 = nr4[len(nr4) - len(rec4):]
                for k, i in enumerate(nr4):
                    t, node = rec4[k]
                    col = pr4.get('nodal price: ' + node)
                    if col is None or col[t] is None:
                        ok4 = False
                        break
                    y4[i] = -col[t]
            if not ok4:
                ctx.violation('impl-violation', {'spec': sp, 'mode': 'first steps fixed, re-optimised', 'observed': 'no nodal price for a nodal row of the re-optimised problem',
                                                 'expected': 'a price per (node, step) with a nodal restriction'}, trigger={'what': 'missing (refix)'})
            else:
                exprs.append('(check_opt %s %s %s %s)' % (C.q(2e-6 * (1 + abs(q['value']))), C.lp(P4), C.qvec(q['x']), C.qvec(y4)))
                owners.append((sp, q))
                ctx.count('re-optimised with fixed first steps: prices certified')
    # ---- split results: the interval problems form a direct sum; the price table must certify optimality of the concatenated point
    for sp, o in zip(specs, res):
        s = o.get('split') if o.get('status') == 'ok' else None
        if not isinstance(s, dict) or s.get('solve') != 'optimal' or not s.get('duals') or not s.get('out') or not s['out'].get('prices'):
            continue
        rows, ct, b, c, l, u = [], '', [], [], [], []
        off = 0
        for p in s['ops']:
            for r in p['rows']:
                rows.append([[j + off for j in r[0]], r[1]])
            ct += p['cType']; b += p['b']; c += p['c']; l += p['l']; u += p['u']
            off += len(p['c'])
        big = {'c': c, 'l': l, 'u': u, 'rows': rows, 'b': b, 'cType': ct}
        # duals are concatenated per class over the intervals, in interval order
        y = []
        cnt = {k: 0 for k in 'ULSN'}
        sign = {'U': 1.0, 'L': -1.0, 'S': 1.0, 'N': 1.0}
        du = s['duals']
        for t in ct:
            arr = du.get(t)
            y.append(sign[t] * arr[cnt[t]] if arr is not None and cnt[t] < len(arr) else 0.0)
            cnt[t] += 1
        nrows, pos = [], 0
        for p in s['ops']:
            own = [pos + i for i, t in enumerate(p['cType']) if t == 'N']
            nrows += own[len(own) - len(p.get('map_nodal_restr', [])):]
            pos += len(p['cType'])
        rec = s.get('map_nodal_restr') or []
        pr = s['out']['prices']
        if len(nrows) != len(rec):
            ctx.violation('impl-violation', {'spec': sp, 'mode': 'split', 'observed': {'nodal rows': len(nrows), 'recorded pairs': len(rec)}, 'expected': 'one recorded (step, node) per nodal row'},
                          trigger={'what': 'record-mismatch'})
            continue
        missing = False
        for k, i in enumerate(nrows):
            t, node = rec[k]
            col = pr.get('nodal price: ' + node)
            if col is None or t >= len(col) or col[t] is None:
                missing = True
                break
            y[i] = -col[t]
        if missing:
            ctx.violation('impl-violation', {'spec': sp, 'mode': 'split', 'observed': 'no nodal price reported at the original step of a nodal row',
                                             'expected': 'a price per (node, step) with a nodal restriction, at the step of the original grid'}, trigger={'what': 'missing'})
            continue
        eps = C.q(2e-6 * (1 + abs(s['value'])))
        exprs.append('(check_opt %s %s %s %s)' % (eps, C.lp(big), C.qvec(s['x']), C.qvec(y)))
        owners.append((sp, {'mode': 'split'}))
        ctx.count('mode:split')
    vals = C.run_coq_exprs('C18', 'Num LP Cert Mapping Dcf Corr', exprs, chunk=8)
    for (sp, o), ok in zip(owners, vals):
        ctx.cov['instances_validated'] += 1
        if not ok:
            ctx.broken('validator-rejected', {'spec': sp, 'theorem_or_correspondence': 'check_opt with y_N := -price from the output table (hypothesis of C18_nodal_price)'})
    ctx.cov['correspondence']['cases'] = len(exprs)
