"""C19 time grid and interval data."""
import random
import pandas as pd
import common as C
import gen
import modelspec as M
from props import util

THEOREMS = ['C19_dt_is_elapsed_time', 'C19_dt_positive', 'C19_cumulative_time', 'C19_restricted_is_subset', 'C19_restricted_order',
            'C19_restricted_arrays', 'C19_coarse_covers', 'C19_coarse_dt', 'C19_interval_data', 'C19_overlap_rejected', 'C19_restricted_twice']
IMPORTS = 'Num LP Cert Mapping Dcf Grid GridProofs Assets Periodic Portfolio Corr Build'
ZONES = [None, None, 'CET', 'Europe/London', 'US/Eastern']
DST = {'CET': ['2021-03-27 12:00', '2021-10-30 12:00', '2021-03-28 00:00', '2021-10-31 00:00'],
       'Europe/London': ['2021-03-27 18:00', '2021-10-30 18:00'], 'US/Eastern': ['2021-03-13 20:00', '2021-11-06 20:00']}


def gen_case(rng, i):
    while True:
        try:
            return gen_case0(rng, i)
        except gen.Unsafe:
            continue


def gen_case0(rng, i):
    tz = rng.choice(ZONES)
    freq = rng.choice(['h', 'h', '2h', '30min', '15min', 'd', '4h', '3h', 'W', 'MS', '45min'])
    unit = rng.choice(['h', 'h', 'd', 'min'])
    T = rng.randint(2, 30) if freq not in ('d', 'W', 'MS') else rng.randint(2, 8)
    start = rng.choice(DST[tz]) if (tz and rng.random() < 0.6) else rng.choice(gen.STARTS + ['2021-01-31 22:00', '2021-02-27 00:00'])
    step = {'W': pd.Timedelta(7, 'd'), 'MS': pd.Timedelta(31, 'd')}.get(freq) or gen.freq_td(freq)
    end = pd.Timestamp(start, tz=tz) + T * step
    if rng.random() < 0.2:
        end = end + step / 3
    end = end.tz_localize(None) if tz else end
    gen.check_safe(end, tz)
    g = {'start': start, 'end': gen.fmt(end), 'freq': freq, 'unit': unit, 'tz': tz}
    pts = gen.grid_points(g)
    g['T'] = len(pts) - 1
    sp = {'id': 'c19_%d' % i, 'seed': 'c19_%d' % i, 'grid': g, 'windows': [], 'ivals': [], 'opts': {}}
    if g['T'] < 1:
        return sp
    Tn = g['T']
    # restriction windows (same frequency and coarse)
    for _ in range(3):
        kind = rng.choice(['inside', 'inside', 'left', 'right', 'straddle_l', 'straddle_r', 'before', 'after', 'offgrid', 'none'])
        a = rng.randint(0, Tn - 1)
        b = rng.randint(a + 1, Tn)
        s, e = pts[a], pts[b]
        if kind == 'left': s = None
        if kind == 'right': e = None
        if kind == 'straddle_l': s = pts[0] - 2 * step
        if kind == 'straddle_r': e = pts[Tn] + 2 * step
        if kind == 'before': s, e = pts[0] - 5 * step, pts[0] - step
        if kind == 'after': s, e = pts[Tn] + step, pts[Tn] + 3 * step
        if kind == 'offgrid': s, e = s + step / 2, e + step / 2
        if kind == 'none': s, e = None, None
        gen.check_safe(s, tz); gen.check_safe(e, tz)
        w = {'start': None if s is None else gen.fmt(s), 'end': None if e is None else gen.fmt(e), 'kind': kind}
        if freq in ('h', '30min', '15min') and rng.random() < 0.4 and kind in ('inside', 'none', 'left', 'right', 'straddle_l', 'straddle_r'):
            m = rng.choice([2, 3, 4])
            base = {'h': 60, '30min': 30, '15min': 15}[freq] * m
            w['freq'] = ('%dh' % (base // 60)) if base % 60 == 0 else ('%dmin' % base)
            w['m'] = m
        sp['windows'].append(w)
    # interval data
    for _ in range(3):
        k = rng.randint(1, 4)
        cuts = sorted(rng.sample(range(0, Tn + 1), min(k + 1, Tn + 1)))
        mode = rng.choice(['tiling', 'tiling', 'gaps', 'overlap', 'overlap_far', 'noend', 'single', 'offgrid', 'nested', 'nested_first', 'duplicate', 'unsorted'])
        st = [pts[c] for c in cuts[:-1]] or [pts[0]]
        en = [pts[c] for c in cuts[1:]] or [pts[Tn]]
        if mode == 'gaps' and len(st) > 1:
            en[0] = st[0] + (en[0] - st[0]) / 2
        if mode == 'overlap' and len(st) > 1:
            en[0] = en[0] + step
        if mode == 'overlap_far' and Tn >= 3:
            # a tiling, followed by an interval that overlaps an interval that is NOT its neighbour in the list
            c1 = rng.randint(2, Tn - 1)
            a = rng.randint(0, c1 - 2)
            b = rng.randint(a + 1, c1 - 1)
            st, en = [pts[0], pts[c1], pts[a]], [pts[c1], pts[Tn], pts[b]]
            if rng.random() < 0.5:
                st, en = [st[2], st[1], st[0]], [en[2], en[1], en[0]]
        if mode == 'offgrid':
            st = [t + step / 4 for t in st]
        if mode in ('nested', 'nested_first') and Tn >= 3:
            # one interval strictly inside another one (an exception window and a default covering the whole period)
            a = rng.randint(1, Tn - 2)
            b = rng.randint(a + 1, Tn - 1)
            inner, outer = (pts[a], pts[b]), (pts[0], pts[Tn])
            st, en = ([inner[0], outer[0]], [inner[1], outer[1]]) if mode == 'nested' else ([outer[0], inner[0]], [outer[1], inner[1]])
        if mode == 'duplicate':
            st, en = [st[0], st[0]], [en[0], en[0]]
        if mode == 'unsorted':
            # a table that is not in ascending order, with a block that lies beyond the grid end listed first
            st, en = [pts[Tn] + step, pts[Tn] + 3 * step] + st[::-1], [pts[Tn] + 3 * step, pts[Tn] + 5 * step] + en[::-1]
        for t in st + en:
            gen.check_safe(t, tz)
        d = {'start': [gen.fmt(t) for t in st], 'values': [gen.k8(rng, -5, 5) for _ in st], 'mode': mode}
        if mode == 'single':
            d = {'start': [d['start'][0]], 'values': [d['values'][0]], 'mode': mode}
        elif mode != 'noend':
            d['end'] = [gen.fmt(t) for t in en]
        if tz and mode != 'noend' and rng.random() < 0.3:
            d['stamp_tz'] = rng.choice(['UTC', 'US/Eastern', 'Asia/Tokyo'])      # same instants, stamped in another zone than the grid's
        sp['ivals'].append(d)
    return sp


def run(ctx):
    if not ctx.proof_gate(THEOREMS, ['Build.vo']):
        return
    n = 80 if ctx.tier == 'quick' else 600
    rng = random.Random('%d/c19' % ctx.seed)
    specs = util.corpus(ctx.prop) + [gen_case(rng, i) for i in range(n)]
    specs = ctx.specs(specs)
    res = C.run_impl('grid', specs)
    exprs, owners = [], []
    for sp, o in zip(specs, res):
        g = sp['grid']
        ctx.count('freq:%s' % g['freq']); ctx.count('tz:%s' % g['tz']); ctx.count('unit:%s' % g['unit'])
        if o.get('status') != 'ok':
            ctx.count('grid rejected: ' + str(o.get('error'))[:40])
            continue
        tz = g.get('tz')
        pts = M.grid_pts(g)           # calendar oracle, independent of eaopack
        us = M.unit_secs(g['unit'])
        # ---- oracle on the implementation's grid
        ctx.cov['impl_oracle_evaluations'] += 1
        bad = {}
        tp = o['tp']
        if any(b <= a for a, b in zip(tp, tp[1:])):
            bad['points not strictly increasing'] = tp[:5]
        if tp and tp[0] != o['start']:
            bad['first point is not the grid start'] = [tp[0], o['start']]
        if any(p >= o['end'] for p in tp):
            bad['point not before the grid end'] = [tp[-1], o['end']]
        for i in range(len(tp) - 1):
            if abs(o['dt'][i] * us - (tp[i + 1] - tp[i])) > 1e-6 * us:
                bad['dt is not the elapsed time'] = [i, o['dt'][i], (tp[i + 1] - tp[i]) / us]
                break
        if o.get('prices_pass') is False:
            bad['gridded price arrays do not pass through unchanged'] = o.get('prices_error', True)
        wrong = {k: v for k, v in (o.get('prices_forms') or {}).items() if v is not True}
        if wrong and tz is None:
            # (on a grid with a time zone a numeric index is read as time stamps by design of the tz handling: only naive grids are judged)
            bad['gridded prices do not pass through unchanged (by the form they are held in)'] = wrong
        if bad:
            trig = {'what': sorted(bad)[0]}
            if g['freq'] in ('W', 'MS') and set(bad) <= {'first point is not the grid start'}:
                trig = {'what': 'anchored frequency'}
            ctx.violation('impl-violation', {'spec': sp, 'observed': bad, 'expected': 'C19 grid facts'}, trigger=trig)
        G = M.grid_term(g)
        exprs.append('(c19_grid_case %s %s %s %s %s)' % (G, C.lst([C.z(p) for p in tp]), C.qvec(o['dt']), C.qvec(o['Dt']),
                                                         C.lst([C.nat(i) for i in o['I']])))
        owners.append((sp, 'grid arrays (timepoints, dt, Dt, I)', None))
        ctx.sample(sp)
        for w, r in zip(sp['windows'], o['windows']):
            ctx.count('window:' + w['kind'] + ('/coarse' if w.get('freq') else ''))
            a = {'start': w['start'], 'end': w['end'], 'freq': w.get('freq'), 'wacc': 0}
            rg = M.rgrid_term(g, a, G)
            ok = r['status'] == 'ok'
            if ok and w.get('freq'):
                # partition oracle: coarse groups = fine steps of the window, without loss
                s = M.inst(w['start'], tz) if w['start'] else M.inst(g['start'], tz)
                e = M.inst(w['end'], tz) if w['end'] else M.inst(g['end'], tz)
                fine = [i for i, p in enumerate(tp) if s <= p < e]
                got = [i for grp in r['minor'] for i in grp]
                ctx.cov['impl_oracle_evaluations'] += 1
                if sorted(got) != fine or len(got) != len(set(got)):
                    ctx.violation('impl-violation', {'spec': sp, 'window': w, 'observed': {'covered': got, 'fine steps of the window': fine},
                                                     'expected': 'coarse grid partitions the fine steps of its window'},
                                  trigger={'what': 'coarse window is no multiple of the coarse step'}
                                  if (len(fine) % w['m'] != 0 or s < tp[0] or (e - s) % (w['m'] * (tp[1] - tp[0]) if len(tp) > 1 else 1) != 0) else {'what': 'coarse partition'})
            if (not ok) and w.get('freq') and w['kind'] in ('straddle_l',):
                ctx.violation('impl-violation', {'spec': sp, 'window': w, 'observed': r.get('error'), 'expected': 'coarse restricted grid for a window starting before the horizon'},
                              trigger={'what': 'coarse window straddles the grid start'})
            nd = r.get('nested')
            if nd is not None and not w.get('freq'):
                # restricting the restricted grid once more (an asset window inside an interval of the horizon): still the points of both
                # windows, indexed in the ORIGINAL grid
                w2 = sp['windows'][(sp['windows'].index(w) + 1) % len(sp['windows'])]
                lo = max([M.inst(x['start'], tz) for x in (w, w2) if x.get('start')] + [tp[0]]) if tp else 0
                hi = min([M.inst(x['end'], tz) for x in (w, w2) if x.get('end')] + [M.inst(g['end'], tz)])
                want = [i for i, p_ in enumerate(tp) if lo <= p_ < hi]
                ctx.cov['impl_oracle_evaluations'] += 1
                if nd.get('status') != 'ok':
                    if want:
                        ctx.violation('impl-violation', {'spec': sp, 'windows': [w, w2], 'observed': nd.get('error'), 'expected': 'restricting a restricted grid works'},
                                      trigger={'what': 'restricting twice fails'})
                elif nd['I'] != want or nd['tp'] != [tp[i] for i in want]:
                    ctx.violation('impl-violation', {'spec': sp, 'windows': [w, w2], 'observed': {'I': nd['I'], 'tp': nd['tp']}, 'expected': {'I': want, 'tp': [tp[i] for i in want]}},
                                  trigger={'what': 'restricting twice: indices not those of the original grid'})
                if nd.get('status') == 'ok':
                    # the model's restrict_rg (GridProofs.v, C19_restricted_twice) on the same two windows
                    s2 = M.inst(w2['start'], tz) if w2.get('start') else min(tp + [M.inst(g['start'], tz)])
                    e2 = M.inst(w2['end'], tz) if w2.get('end') else M.inst(g['end'], tz)
                    exprs.append('(c19_nested_case %s %s %s %s %s)' % (rg, C.z(s2), C.z(e2), C.lst([C.nat(i) for i in nd['I']]), C.lst([C.z(p_) for p_ in nd['tp']])))
                    owners.append((sp, 'restricted twice', [w, w2]))
            exprs.append('(c19_window_case %s %s %s %s %s %s %s)' % (
                rg, C.b(ok), C.lst([C.nat(i) for i in r.get('I', [])]), C.lst([C.z(p) for p in r.get('tp', [])]),
                C.qvec(r.get('dt', [])), C.qvec(r.get('Dt', [])),
                'None' if 'minor' not in r else '(Some %s)' % C.lst([C.lst([C.nat(i) for i in grp]) for grp in r['minor']])))
            owners.append((sp, 'restricted grid', w))
        for p, r in zip(sp['ivals'], o['ivals']):
            ctx.count('ival:' + p['mode'] + ':' + r['status'])
            if r['status'] == 'error':
                trig = {'what': 'ival crash'}
                if 'end' not in p and len(p['start']) > 1 and tz is not None:
                    # the documented implicit end of the last interval (last start + twice the last distance, in wall-clock time)
                    # may not exist / be ambiguous as a local time of the zone
                    st_ = [pd.Timestamp(t) for t in p['start']]
                    last = st_[-1] + 2 * (st_[-1] - st_[-2])
                    try:
                        if last.tzinfo is None:
                            last.tz_localize(tz)
                    except Exception:
                        trig = {'what': 'implicit interval end is no valid local time'}
                ctx.violation('impl-violation', {'spec': sp, 'ival': p, 'observed': r['error'], 'expected': 'values or ValueError(overlap)'}, trigger=trig)
                continue
            # oracle on the implementation, independent of the model: unique containing interval / None / overlap rejected
            ctx.cov['impl_oracle_evaluations'] += 1
            st = [M.inst(t, tz) for t in p['start']]
            en = M.implicit_ends(p, tz)
            hits = [[k for k, (a, b) in enumerate(zip(st, en)) if a <= q and (b is None or q < b)] for q in tp]
            overlap = any(len(h) > 1 for h in hits)
            if overlap != (r['status'] == 'ValueError'):
                ctx.violation('impl-violation', {'spec': sp, 'ival': p, 'observed': r['status'], 'expected': 'ValueError' if overlap else 'values'},
                              trigger={'what': 'overlap handling'})
            elif not overlap:
                want = [p['values'][h[0]] if h else None for h in hits]
                if want != r['values']:
                    ctx.violation('impl-violation', {'spec': sp, 'ival': p, 'observed': r['values'], 'expected': want}, trigger={'what': 'interval value'})
            impl = 'None' if r['status'] != 'ok' else '(Some %s)' % C.lst(['None' if v is None else '(Some %s)' % C.q(v) for v in r['values']])
            exprs.append('[c19_ival_case %s %s %s]' % (C.lst([C.z(t) for t in tp]), M.param_term({k: v for k, v in p.items() if k not in ('mode', 'stamp_tz')}, sp, g), impl))
            owners.append((sp, 'values_to_grid', p))
    vals = C.run_coq_exprs('C19', IMPORTS, exprs, chunk=25)
    for (sp, what, detail), v in zip(owners, vals):
        ctx.cov['correspondence']['cases'] += 1
        ctx.cov['correspondence']['components_compared'] += len(v)
        if not all(v):
            ctx.cov['correspondence']['disagreements'] += 1
            ctx.broken('correspondence-broken', {'spec': sp, 'detail': detail, 'theorem_or_correspondence': 'Timegrid vs Grid.v: %s %s' % (what, v)})
