"""C20 order book: partial or full execution, delivered over the order's window."""
import numpy as np
import common as C
import gen
import modelspec as M
from props import util

THEOREMS = ['C20_order_bounds', 'C20_order_delivery', 'C20_order_cost', 'C20_full_exec_flag', 'C20_order_outside_inert']
CFG = {'p_coarse': 0.0, 'p_periodic': 0.0, 'T': (3, 9), 'n_assets': (1, 3), 'nodes': (1, 2), 'p_window': 0.3, 'p_market': 0.9, 'p_wacc': 0.5,
       'p_full_exec': 0.35, 'tzs': [None, None, 'CET', 'CET'], 'p_dst': 0.7,
       'order_kinds': ['inside', 'inside', 'inside', 'straddle', 'outside', 'offgrid'],
       'kinds': {'OrderBook': 5, 'SimpleContract': 1, 'Storage': 1, 'Transport': 1}}


def ref_oracle(ctx, sp, o, what='optimum of the independent formulation'):
    """EAO's optimum against the independently written formulation (harness/ref.py, solved with HiGHS)"""
    r = o.get('ref') or {}
    if o.get('status') != 'ok' or r.get('status') in (None, 'rejected'):
        ctx.count('ref:' + str(r.get('status')) + '/' + str(o.get('status')))
        return
    ctx.cov['impl_oracle_evaluations'] += 1
    ctx.count('ref:%s/eao:%s' % (r['status'], o.get('solve')))
    if o.get('solve') == 'optimal' and r['status'] == 'optimal':
        # sound against an imperfect reference solver: every comparison uses values of points that are feasible in the
        # reference model.  v_fix = best reference value with the flows fixed to EAO's dispatch.
        tol = 1e-5 * (1 + abs(r['value']) + abs(o['value']))     # the dispatch handed over carries the solver's tolerance
        if r.get('eao_dispatch_in_reference') != 'optimal':
            ctx.violation('impl-violation', {'spec': sp, 'observed': {'EAO dispatch in the reference model': r.get('eao_dispatch_in_reference')},
                                             'expected': 'the dispatch EAO returns is feasible for the reference model'}, trigger={'what': 'dispatch infeasible in reference'})
        elif abs(r['value_of_eao_dispatch'] - o['value']) > tol:
            ctx.violation('impl-violation', {'spec': sp, 'observed': {'EAO value': o['value'], 'value of the same dispatch in the reference model': r['value_of_eao_dispatch']},
                                             'expected': what}, trigger={'what': 'value of the dispatch differs from reference'})
        elif r['value'] > o['value'] + tol:
            ctx.violation('impl-violation', {'spec': sp, 'observed': {'EAO optimum': o['value'], 'reference optimum': r['value']}, 'expected': what},
                          trigger={'what': 'optimum differs from reference'})
        elif r['value'] < o['value'] - tol:
            ctx.count('reference solver returned a suboptimal point (EAO better, its dispatch feasible and worth the same in the reference)')
    elif o.get('solve') == 'optimal' and r['status'] == 'infeasible':
        ctx.violation('impl-violation', {'spec': sp, 'observed': {'EAO optimum': o['value'], 'reference': 'infeasible'}, 'expected': what}, trigger={'what': 'reference infeasible'})
    elif o.get('solve') in ('not successful', 'infeasible') and r['status'] == 'optimal':
        ctx.violation('impl-violation', {'spec': sp, 'observed': {'EAO': o.get('solve'), 'reference optimum': r['value']}, 'expected': what}, trigger={'what': 'EAO infeasible, reference feasible'})


def orders_oracle(ctx, sp, o):
    """fractions, delivery and payment of every order recomputed from the output tables and the calendar"""
    if o.get('status') != 'ok' or o.get('solve') != 'optimal' or not o.get('out'):
        return
    g = sp['grid']
    tz = g.get('tz')
    pts = M.grid_pts(g)
    us = M.unit_secs(g.get('unit', 'h'))
    T = len(pts) - 1
    dt = [(pts[t + 1] - pts[t]) / us for t in range(T)]
    for a in sp['assets']:
        if a['kind'] != 'OrderBook':
            continue
        ctx.cov['impl_oracle_evaluations'] += 1
        disc = M.discount(g, a.get('wacc', 0) or 0)
        od = a['orders']
        frac = {}
        costs = {}
        for asset, var, name, value, cost in o['out']['special']:
            if asset == a['name']:
                frac[int(float(name))] = value
                costs[int(float(name))] = cost
        bad = {}
        deliv = np.zeros(T)
        pay = 0.0
        for i, (s, e, ca, pr) in enumerate(zip(od['start'], od['end'], od['capa'], od['price'])):
            lo, hi = M.inst(s, tz), M.inst(e, tz)
            cov = [t for t in range(T) if lo <= pts[t] < hi]
            if not cov:
                if i in frac:
                    bad['order outside the horizon reported'] = i
                continue
            if i not in frac:
                bad['order missing in the special output'] = i
                continue
            f = frac[i]
            if f < -1e-6 or f > 1 + 1e-6:
                bad['fraction outside [0,1]'] = [i, f]
            if a.get('full_exec') and min(abs(f), abs(f - 1)) > 1e-6:
                bad['fraction not 0/1 under full execution'] = [i, f]
            for t in cov:
                deliv[t] += f * ca * dt[t]
            p_i = f * ca * pr * sum(dt[t] * disc[t] for t in cov)
            pay += p_i
            if abs(costs[i] - p_i) > 1e-6 * (1 + abs(p_i)):
                bad['order payment'] = [i, costs[i], p_i]
        col = util.colname(o, a['name'], a['nodes'][0])
        rep = [v or 0.0 for v in o['out']['dispatch'].get(col, [0.0] * T)]
        if any(abs(r - d) > 1e-6 * (1 + abs(d)) for r, d in zip(rep, deliv)):
            bad['delivery per step'] = [rep, [float(v) for v in deliv]]
        dcf = o['out']['DCF'].get(a['name'])
        if dcf is not None and abs(sum(v or 0.0 for v in dcf) + pay) > 1e-6 * (1 + abs(pay)):
            bad['cash flow of the order book'] = [sum(v or 0.0 for v in dcf), -pay]
        if bad:
            ctx.violation('impl-violation', {'spec': sp, 'asset': a['name'], 'observed': bad,
                                             'expected': 'fraction in [0,1] (0/1 full exec); delivery = sum fraction x capacity x step length; payment = fraction x capacity x price x discounted covered duration'},
                          trigger={'what': sorted(bad)[0]})


def orders_oracle_split(ctx, sp, o):
    """split optimisation: an order has one execution per interval in which it covers a step; the special output lists every one of them,
    and their payments add up to the cash flow of the book"""
    s = o.get('split') if o.get('status') == 'ok' else None
    if not isinstance(s, dict) or s.get('solve') != 'optimal' or not s.get('out'):
        return
    from props.C14 import interval_ranges
    g = sp['grid']
    tz = g.get('tz')
    pts = M.grid_pts(g)
    ivs = interval_ranges(sp, sp['opts']['split'])
    for a in sp['assets']:
        if a['kind'] != 'OrderBook':
            continue
        ctx.cov['impl_oracle_evaluations'] += 1
        od = a['orders']
        want = {}
        for i, (s0, e0) in enumerate(zip(od['start'], od['end'])):
            lo, hi = M.inst(s0, tz), M.inst(e0, tz)
            want[i] = sum(1 for st in ivs if any(lo <= pts[t] < hi for t in st))
        got, pay = {}, 0.0
        for asset, var, name, value, cost in s['out']['special']:
            if asset == a['name']:
                got[int(float(name))] = got.get(int(float(name)), 0) + 1
                pay += cost or 0.0
        bad = {}
        if {k: v for k, v in want.items() if v} != got:
            bad['executions listed per order (one per interval the order touches)'] = {'listed': got, 'expected': {k: v for k, v in want.items() if v}}
        dcf = s['out']['DCF'].get(a['name'])
        if dcf is not None and abs(sum(v or 0.0 for v in dcf) + pay) > 1e-6 * (1 + abs(pay)):
            bad['payments of the listed executions vs cash flow of the book'] = [pay, -sum(v or 0.0 for v in dcf)]
        if bad:
            ctx.violation('impl-violation', {'spec': sp, 'mode': 'split', 'asset': a['name'], 'observed': bad,
                                             'expected': 'the special output explains what the book delivers and pays'}, trigger={'what': 'split: ' + sorted(bad)[0][:30]})


def run(ctx):
    if not ctx.proof_gate(THEOREMS, ['OrderBook.vo']):
        return
    n = 60 if ctx.tier == 'quick' else 400
    specs = util.corpus(ctx.prop) + gen.gen_many(ctx.seed, n, CFG, 'c20_')
    specs += util.orderbook_tail_specs(ctx.seed, 10 if ctx.tier == 'quick' else 60, 'c20ob_', split=False)
    # orders starting / ending inside the repeated or missing hour of a DST switch (aware instants)
    specs += gen.gen_many(ctx.seed, n // 2, dict(CFG, aware=True, tzs=['CET'], p_dst=1.0, freqs=['h', '30min'], T=(5, 10)), 'c20dst_')
    # the same objects were used before (other prices): assets before the book with their own wacc / window
    warm = gen.gen_many(ctx.seed, n // 2, dict(CFG, p_window=0.6, p_wacc=0.8, kinds={'OrderBook': 3, 'SimpleContract': 3, 'Storage': 1}), 'c20w_')
    for sp in warm:
        sp['opts']['warmup'] = 'solve'
    specs += warm
    # the order list of an existing book is replaced (created with the first orders only, refreshed afterwards)
    fresh = gen.gen_many(ctx.seed, n // 3, dict(CFG, kinds={'OrderBook': 4, 'SimpleContract': 2, 'Storage': 1}), 'c20r_')
    for sp in fresh:
        for a in sp['assets']:
            if a['kind'] == 'OrderBook' and len(a['orders']['start']) >= 2:
                a['created_with'] = 1 + (len(a['name']) + len(a['orders']['start'])) % (len(a['orders']['start']) - 1)
    specs += fresh
    # full execution after the relaxed problem was solved on the same object
    soft = gen.gen_many(ctx.seed, n // 3, dict(CFG, p_full_exec=1.0, kinds={'OrderBook': 4, 'SimpleContract': 2, 'Storage': 1}), 'c20soft_')
    for sp in soft:
        sp['opts']['soft_first'] = True
    specs += soft
    # rolling horizon: the same book was set up on the previous / next window of the same length before
    roll = gen.gen_many(ctx.seed, n // 3, dict(CFG, tzs=[None], kinds={'OrderBook': 4, 'SimpleContract': 2, 'Storage': 1}), 'c20roll_')
    for k_, sp in enumerate(roll):
        sp['opts']['warmup_shift'] = 1 if k_ % 2 else -1
    specs += roll
    # capacities written as whole numbers (int), prices and durations with fractions
    ints = gen.gen_many(ctx.seed, n // 3, dict(CFG, freqs=['h', '30min', '15min'], kinds={'OrderBook': 4, 'SimpleContract': 2, 'Storage': 1}), 'c20int_')
    for sp in ints:
        for a in sp['assets']:
            if a['kind'] == 'OrderBook':
                a['orders']['capa'] = [int(v) if abs(v) >= 1 else (1 if v > 0 else -1) for v in a['orders']['capa']]
                a['orders']['price'] = [v + 0.3 for v in a['orders']['price']]
    specs += ints
    # the order list as a DataFrame with further, partly empty columns (order reference, comment)
    frm = gen.gen_many(ctx.seed, n // 3, dict(CFG, kinds={'OrderBook': 4, 'SimpleContract': 2, 'Storage': 1}), 'c20fr_')
    for sp in frm:
        for a in sp['assets']:
            if a['kind'] == 'OrderBook':
                a['orders_as_frame'] = True
    specs += frm
    # split optimisation with orders delivering across interval borders
    spl = gen.gen_many(ctx.seed, n // 3, dict(CFG, freqs=['h'], tzs=[None], T=(6, 10), p_unaligned_end=0.0, p_full_exec=0.2, kinds={'OrderBook': 4, 'SimpleContract': 2, 'Storage': 1}), 'c20sp_')
    for sp in spl:
        sp['opts']['split'] = '3h'
    specs = ctx.specs(specs)
    spl = [sp for sp in ctx.specs(spl) if sp.get('opts', {}).get('split')]
    for sp, o in zip(spl, C.run_impl('portfolio', spl) if spl else []):
        ctx.count('split status:' + str((o.get('split') or {}).get('solve') if isinstance(o.get('split'), dict) else o.get('status')))
        orders_oracle_split(ctx, sp, o)
    res = C.run_impl('reference', specs)
    parts = C.run_impl('assets', specs)
    for sp, o in zip(specs, res):
        ctx.count('status:' + str(o.get('status')))
        for a in sp['assets']:
            ctx.count('kind:' + a['kind'] + (':full_exec' if a.get('full_exec') else ''))
        ref_oracle(ctx, sp, o)
        orders_oracle(ctx, sp, o)
        ctx.sample({'spec': sp})
    util.asset_corr(ctx, specs, parts, 'C20', want=lambda a: a['kind'] == 'OrderBook')
