"""C11: value layer of the serialiser against Codec.v (values -> Coq terms, JSON -> Coq terms)."""
import random, datetime
import common as C

UNITS = {'ns': 1, 'us': 10 ** 3, 'ms': 10 ** 6, 's': 10 ** 9, 'm': 60 * 10 ** 9, 'h': 3600 * 10 ** 9, 'D': 86400 * 10 ** 9}
ZONES = ['CET', 'US/Eastern', 'UTC', 'Asia/Tokyo']


def gen_value(rng, depth=0):
    kinds = ['num', 'num', 'str', 'bool', 'none', 'date', 'stamp', 'stamp', 'arr', 'datearr', 'datearr', 'index', 'index']
    if depth < 2:
        kinds += ['list', 'dict', 'dict']
    k = rng.choice(kinds)
    base = 1609459200 + rng.randint(-400, 400) * 86400          # around 2021-01-01
    if k == 'num':
        return {'k': k, 'v': rng.choice([0.0, 1.0, -2.5, 0.125, 1e6, 3.0, 17.75])}
    if k == 'str':
        return {'k': k, 'v': rng.choice(['p0', 'price', 'h', '2h', 'N 1', ''])}
    if k == 'bool':
        return {'k': k, 'v': rng.random() < 0.5}
    if k == 'none':
        return {'k': k}
    if k == 'date':
        return {'k': k, 'v': 18628 + rng.randint(-500, 500)}
    if k == 'stamp':
        return {'k': k, 'v': base + rng.randint(0, 86399), 'tz': rng.choice([None, None] + ZONES), 'as': rng.choice(['timestamp', 'datetime'])}
    if k == 'arr':
        return {'k': k, 'v': [rng.choice([0.0, 1.5, -3.25, 8.0, 0.0625]) for _ in range(rng.randint(1, 4))]}
    if k == 'datearr':
        unit = rng.choice(list(UNITS))
        n = rng.randint(1, 3)
        return {'k': k, 'unit': unit, 'v': [(base + 3600 * 24 * i) * 10 ** 9 // UNITS[unit] for i in range(n)]}
    if k == 'index':
        n = rng.randint(1, 4)
        freq = rng.choice([None, None, 'h'])
        step = 3600 if freq else rng.choice([3600, 86400, 5400])
        return {'k': k, 'v': [base + step * i for i in range(n)], 'tz': rng.choice([None] + ZONES), 'freq': freq}
    if k == 'list':
        return {'k': k, 'v': [gen_value(rng, depth + 1) for _ in range(rng.randint(0, 3))]}
    keys = rng.sample(['start', 'end', 'values', 'I', 'x', 'capa', 'price'], rng.randint(1, 3))
    return {'k': 'dict', 'v': [[kk, gen_value(rng, depth + 1)] for kk in keys]}


def ostr(s):
    return 'None' if s is None else '(Some %s)' % C.s(s)


def pv_term(d):
    k = d['k']
    if k == 'num':
        return '(VNum %s)' % C.q(float(d['v']))
    if k == 'str':
        return '(VStr %s)' % C.s(d['v'])
    if k == 'bool':
        return '(VBool %s)' % C.b(d['v'])
    if k == 'none':
        return 'VNone'
    if k == 'date':
        return '(VDate %s)' % C.z(d['v'])
    if k == 'stamp':
        return '(VStamp %s %s)' % (C.z(d['v']), ostr(d.get('tz')))
    if k == 'arr':
        return '(VArr %s)' % C.qvec(d['v'])
    if k == 'datearr':
        return '(VDateArr %s %s)' % (C.z(UNITS[d['unit']]), C.lst([C.z(v) for v in d['v']]))
    if k == 'index':
        return '(VIndex %s %s %s)' % (C.lst([C.z(v) for v in d['v']]), ostr(d.get('tz')), ostr(d.get('freq')))
    if k == 'list':
        return '(VList %s)' % C.lst([pv_term(e) for e in d['v']])
    if k == 'dict':
        return '(VDict %s)' % C.lst(['(%s, %s)' % (C.s(kk), pv_term(e)) for kk, e in d['v']])
    raise ValueError('value not expressible: %r' % (d,))


def jv_term(j, key=None, cls=None):
    """JSON tree as parsed by json.loads -> Coq term; the text of a time stamp / a day becomes JTime / JDay"""
    if j is None:
        return 'JNull'
    if isinstance(j, bool):
        return '(JBool %s)' % C.b(j)
    if isinstance(j, int):
        return '(JInt %s)' % C.z(j)
    if isinstance(j, float):
        return '(JNum %s)' % C.q(j)
    if isinstance(j, str):
        if key == '__value__' and cls == 'datetime':
            t = datetime.datetime.strptime(j, '%Y-%m-%d %H:%M:%S')
            return '(JTime %s)' % C.z(int((t - datetime.datetime(1970, 1, 1)).total_seconds()))
        if key == '__value__' and cls == 'date':
            t = datetime.datetime.strptime(j, '%Y-%m-%d').date()
            return '(JDay %s)' % C.z((t - datetime.date(1970, 1, 1)).days)
        return '(JStr %s)' % C.s(j)
    if isinstance(j, list):
        return '(JList %s)' % C.lst([jv_term(e) for e in j])
    if isinstance(j, dict):
        c = j.get('__class__')
        return '(JObj %s)' % C.lst(['(%s, %s)' % (C.s(k), jv_term(v, k, c)) for k, v in j.items()])
    raise ValueError('json value %r' % (j,))


NAMES = ['text written = Codec.ser of the value', 'Codec.deser of the text = the loaded object', 'loaded object = normal form of the value',
         'text of the loaded object = Codec.ser of it', 'second text = first text']


def run(ctx, n):
    rng = random.Random('%d/codec' % ctx.seed)
    vals = [gen_value(rng) for _ in range(n)]
    if ctx.replay is not None:
        # replay mode: only the recorded values
        vals = [d for sp in ctx.replay if sp.get('codec') for d in sp['values']]
        if not vals:
            return
    specs = [{'id': 'codec_%d' % i, 'seed': 'codec_%d' % i, 'values': vals[i::8], 'opts': {}} for i in range(8)]
    res = C.run_impl('codec', specs)
    exprs, owners = [], []
    for sp, o in zip(specs, res):
        for d, r in zip(sp['values'], o['cases']):
            ctx.count('value:' + d['k'] + ((':' + d['unit']) if d['k'] == 'datearr' else ''))
            if 'error' in r:
                ctx.violation('impl-violation', {'spec': {'id': sp['id'], 'values': [d], 'opts': {}, 'codec': True}, 'observed': r['error'],
                                                 'expected': 'the value can be saved and loaded'}, trigger={'what': 'codec crash ' + d['k']})
                continue
            if not r['same_text']:
                ctx.violation('impl-violation', {'spec': {'id': sp['id'], 'values': [d], 'opts': {}, 'codec': True}, 'observed': {'first': r['j1'], 'second': r['j2']},
                                                 'expected': 'saving the loaded object reproduces the same JSON'}, trigger={'what': 'codec resave ' + d['k']})
            try:
                exprs.append('(codec_case %s %s %s %s)' % (pv_term(d), jv_term(r['j1']), pv_term(r['loaded']), jv_term(r['j2'])))
                owners.append(d)
            except ValueError as e:
                ctx.violation('impl-violation', {'spec': {'id': sp['id'], 'values': [d], 'opts': {}, 'codec': True}, 'observed': str(e), 'expected': 'a value of a known form'},
                              trigger={'what': 'codec unknown form'})
    out = C.run_coq_exprs('C11c', 'Codec', exprs, chunk=25)
    for d, v in zip(owners, out):
        ctx.cov['correspondence']['cases'] += 1
        ctx.cov['correspondence']['components_compared'] += len(NAMES)
        for nm, ok in zip(NAMES, v):
            if not ok:
                ctx.cov['correspondence']['disagreements'] += 1
                ctx.broken('correspondence-broken', {'spec': {'id': 'codec', 'values': [d], 'opts': {}, 'codec': True},
                                                     'theorem_or_correspondence': 'serialization.py value layer vs Codec.v: ' + nm})
