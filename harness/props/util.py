"""helpers shared by the property modules"""
import os, json, glob
import common as C


def corpus(prop):
    """minimised cases that once disagreed or violated; always run first"""
    out = []
    for fn in sorted(glob.glob(os.path.join(C.ROOT, 'corpus', prop, '*.json'))):
        sp = json.load(open(fn))
        sp['id'] = 'corpus_' + os.path.basename(fn)[:-5]
        sp.setdefault('opts', {})
        out.append(sp)
    return out


def colname(o, a, n):
    return a if len(o['nodes']) == 1 else '%s (%s)' % (a, n)


def dispatch_table(o, disp):
    """[(asset, node, values)] from the implementation's dispatch table"""
    tab = []
    for a in o['assets']:
        for n in a['nodes']:
            col = colname(o, a['name'], n)
            if col in disp:
                tab.append((a['name'], n, [0.0 if v is None else v for v in disp[col]]))
    return tab


def nodal_imbalance(o, disp, tol=1e-6):
    """list of (node, step, sum) where the reported dispatch does not balance.  A solver meets its rows up to a tolerance relative to the
    magnitude of the whole problem, so the largest reported flow sets the scale (a tolerance relative to the flows of the node alone alarms
    on badly scaled but correctly solved problems)"""
    bad = []
    scale = 1.0
    for v in disp.values():
        for e in v:
            if e is not None:
                scale = max(scale, abs(e))
    for n in o['nodes']:
        cols = [colname(o, a['name'], n) for a in o['assets'] if n in a['nodes']]
        cols = [c for c in cols if c in disp]
        for t in range(o['T']):
            s = sum((disp[c][t] or 0.0) for c in cols)
            if abs(s) > tol * scale:
                bad.append([n, t, s])
    return bad[:10]


def add_split(specs, every=2):
    """ask for split optimisation on every n-th spec without coarse / periodic assets
    (their combination with short intervals is explored under C14)"""
    for i, sp in enumerate(specs):
        if i % every == 0 and sp['grid']['freq'] in ('h', '30min') and 'split' not in sp['opts']:
            if any(a.get('freq') or a.get('periodicity') for a in sp['assets']):
                continue
            sp['opts']['split'] = {'h': '3h', '30min': '2h'}[sp['grid']['freq']]
    return specs


def orderbook_tail_specs(seed, n, tag, split=True):
    """portfolios whose LAST asset is an order book whose last order has no step in the first split
    interval (or none in the horizon at all): a trailing variable without mapping row"""
    import random, gen
    out = []
    for i in range(n):
        rng = random.Random('%s/%s/%d' % (seed, tag, i))
        cfg = {'freqs': ['h'], 'tzs': [None], 'T': (6, 9), 'units': ['h', 'd'], 'p_unaligned_end': 0.0, 'nodes': (1, 2),
               'n_assets': (1, 2), 'p_market': 1.0, 'p_window': 0.2, 'kinds': {'SimpleContract': 1, 'Storage': 1, 'Transport': 1}}
        sp = gen.gen_portfolio(rng, cfg)
        g = sp['grid']
        pts = gen.grid_points(g)
        T = len(pts) - 1
        node = sp['assets'][0]['nodes'][0]
        st = [pts[0], pts[1]]
        en = [pts[2], pts[3]]
        if rng.random() < 0.5:            # last order delivers only in a later interval
            st.append(pts[T - 2]); en.append(pts[T])
        else:                             # last order lies outside the horizon
            st.append(pts[T] + 2 * (pts[1] - pts[0])); en.append(pts[T] + 4 * (pts[1] - pts[0]))
        ob = {'kind': 'OrderBook', 'name': 'ob', 'nodes': [node],
              'orders': {'start': [gen.fmt(t) for t in st], 'end': [gen.fmt(t) for t in en],
                         'capa': [rng.choice([-1, 1]) * gen.k8(rng, 1, 4) for _ in st], 'price': [gen.k8(rng, 0, 10) for _ in st]}}
        pos = rng.choice(['last', 'last', 'first', 'middle'])
        if pos == 'last':
            sp['assets'].append(ob)
        elif pos == 'first':
            sp['assets'].insert(0, ob)
        else:
            sp['assets'].insert(len(sp['assets']) // 2, ob)
        if split:
            sp['opts']['split'] = '3h'
        sp['id'] = '%s%d' % (tag, i)
        sp['seed'] = '%s/%s/%d' % (seed, tag, i)
        out.append(sp)
    return out


# ------------------------------------------------------------------ model builders vs. <Asset>.setup_optim_problem
ASSET_IMPORTS = 'Num LP Cert Mapping Dcf Grid Assets StorageProofs Periodic Portfolio Corr Build Ramp Plant'
ASSET_NAMES = ['accepted/rejected alike', 'c', 'l', 'u', 'rows', 'mapping']


def modelled(a):
    """asset specs the Gallina builders cover"""
    if a['kind'] in ('LinkedAsset',):
        return False
    if a['kind'] in ('Plant', 'CHPAsset'):
        # start / shutdown ramp profiles and frequencies other than the grid's are not modelled
        # separate heat profiles, profiles in another frequency than the grid's and asset frequencies other than the grid's are not modelled
        if any(a.get(k) for k in ('start_ramp_lower_bounds_heat', 'shutdown_ramp_lower_bounds_heat', 'freq', 'periodicity')):
            return False
        return True
    if a.get('block_size'):
        return False
    if a['kind'] == 'ScaledAsset':
        return modelled(a['base'])
    if a['kind'] == 'StructuredAsset':
        return all(modelled(b) for b in a['assets'])
    return True


def asset_corr(ctx, specs, parts, tag, want=None):
    """compare the model builder of every (modelled) asset of every spec with the implementation's stand-alone
    problem (c, l, u, rows, mapping, acceptance).  parts = results of the 'assets' probe."""
    import modelspec as M
    exprs, owners = [], []
    for sp, pa in zip(specs, parts):
        if pa.get('status') != 'ok':
            continue
        G = M.grid_term(sp['grid'])
        for a, r in zip(sp['assets'], pa['assets']):
            if not modelled(a) or (want is not None and not want(a)):
                continue
            ok = r['status'] == 'ok'
            P = C.lp(r['problem']) if ok else '(Build_lp [] [] [] [])'
            mp = C.mapping(r['problem']['mapping']) if ok else '[]'
            try:
                term = M.asset_term(a, sp, 'G')
            except Exception as e:
                ctx.count('asset not expressible in the model: ' + repr(e)[:40])
                continue
            exprs.append('(let G := %s in asset_case %s %s %s %s)' % (G, term, C.b(ok), P, mp))
            owners.append((sp, a))
            ctx.count('corr:' + a['kind'] + ('' if ok else ':rejected'))
    vals = C.run_coq_exprs(tag, ASSET_IMPORTS, exprs, chunk=8)
    for (sp, a), v in zip(owners, vals):
        ctx.cov['correspondence']['cases'] += 1
        ctx.cov['correspondence']['components_compared'] += 5
        for nm, ok in zip(ASSET_NAMES, v):
            if not ok:
                ctx.cov['correspondence']['disagreements'] += 1
                ctx.broken('correspondence-broken', {'spec': sp, 'asset': a,
                                                     'theorem_or_correspondence': '%s.setup_optim_problem vs model builder: %s' % (a['kind'], nm)})
    return len(exprs)


def split_twin_specs(seed, n, tag, split=True):
    """portfolios whose assets come in twins with complementary windows meeting at a split boundary and different
    parameters: the interval problems have the same shape but different content"""
    import random, gen
    out = []
    for i in range(n):
        rng = random.Random('%s/%s/%d' % (seed, tag, i))
        cfg = {'freqs': ['h'], 'tzs': [None], 'T': (6, 6), 'units': ['h', 'd'], 'p_unaligned_end': 0.0, 'nodes': (2, 3),
               'n_assets': (0, 1), 'p_market': 1.0, 'p_window': 0.0, 'kinds': {'SimpleContract': 1, 'Storage': 1}}
        sp = gen.gen_portfolio(rng, cfg)
        g = sp['grid']
        pts = gen.grid_points(g)
        mid = gen.fmt(pts[3])
        nodes = sorted(set(n for a in sp['assets'] for n in a['nodes']))
        for k in range(rng.randint(1, 2)):
            n1, n2 = rng.sample(nodes, 2)
            kind = rng.choice(['Transport', 'Transport', 'MultiCommodityContract'])
            for half, (s0, e0) in enumerate(((None, mid), (mid, None))):
                if kind == 'Transport':
                    a = {'kind': 'Transport', 'name': 'tw%d_%d' % (k, half), 'nodes': [n1, n2], 'min_cap': 0.0, 'max_cap': gen.k8(rng, 2, 8),
                         'efficiency': rng.choice([1.0, 0.5, 0.75, 0.875, 0.625]), 'costs_const': gen.k8(rng, 0, 1)}
                else:
                    a = {'kind': 'MultiCommodityContract', 'name': 'tw%d_%d' % (k, half), 'nodes': [n1, n2], 'price': gen.new_price(rng, g, sp['prices']),
                         'min_cap': 0.0, 'max_cap': gen.k8(rng, 1, 6), 'factors_commodities': [1.0, rng.choice([0.5, -0.5, 0.25, 2.0, -1.0, 1.5])]}
                if s0: a['start'] = s0
                if e0: a['end'] = e0
                sp['assets'].append(a)
        if split:
            sp['opts']['split'] = '3h'
        sp['id'] = '%s%d' % (tag, i)
        sp['seed'] = '%s/%s/%d' % (seed, tag, i)
        out.append(sp)
    return out


def rescaled(specs, pf, vf):
    """the same portfolios in other units: prices x pf, volumes / capacities x vf (e.g. GW and EUR/GWh)"""
    import copy
    out = []
    VOL = ('min_cap', 'max_cap', 'size', 'cap_in', 'cap_out', 'start_level', 'end_level', 'inflow')
    PRC = ('extra_costs', 'cost_in', 'cost_out', 'cost_store', 'costs_const')

    def scale(v, f):
        if isinstance(v, (int, float)):
            return v * f
        if isinstance(v, dict) and 'values' in v:
            return dict(v, values=[x * f for x in v['values']])
        return v
    for sp in specs:
        v = copy.deepcopy(sp)
        capkeys = set(a[k] for a in v['assets'] for k in VOL if isinstance(a.get(k), str))
        v['prices'] = {k: [x * (vf if k in capkeys else pf) for x in arr] for k, arr in v['prices'].items()}
        for a in v['assets']:
            for k in VOL:
                if k in a:
                    a[k] = scale(a[k], vf)
            for k in PRC:
                if k in a:
                    a[k] = scale(a[k], pf)
            for k in ('max_take', 'min_take'):
                if k in a:
                    a[k] = scale(a[k], vf)
        v['id'] = sp['id'] + '_resc'
        out.append(v)
    return out




def split_map_expr(sp, s_):
    """Coq expression comparing the joint mapping of a split set-up with Split.split_map of its interval problems
    (original step lists from the calendar)"""
    import common as C
    from props.C14 import interval_ranges
    rng_ = interval_ranges(sp, sp['opts']['split'])
    if len(rng_) != len(s_['ops']):
        return None
    parts = ['(split_part %s %s %s)' % (C.lst([C.nat(t) for t in st]), C.nat(len(p['c'])), C.mapping(p['mapping'])) for st, p in zip(rng_, s_['ops'])]
    return '(c14_split_map_case %s %s)' % (C.lst(parts), C.mapping(s_['mapping']))


SPLIT_MAP_NAMES = ['mapping rows of every interval problem lie within its steps and variables', 'joint mapping = Split.split_map of the interval problems']
