"""helpers shared by the property modules"""
import os, json, glob
import common as C


def corpus(prop):
    """minimised cases that once disagreed or violated; always run first"""
    out = []
    for fn in sorted(glob.glob(os.path.join(C.ROOT, 'corpus', prop, '*.json'))):
        sp = json.load(open(fn))
        sp['id'] = 'corpus_' + os.path.basename(fn)[:-5]
        sp.setdefault('opts', {})
        out.append(sp)
    return out


def colname(o, a, n):
    return a if len(o['nodes']) == 1 else '%s (%s)' % (a, n)


def dispatch_table(o, disp):
    """[(asset, node, values)] from the implementation's dispatch table"""
    tab = []
    for a in o['assets']:
        for n in a['nodes']:
            col = colname(o, a['name'], n)
            if col in disp:
                tab.append((a['name'], n, [0.0 if v is None else v for v in disp[col]]))
    return tab


def nodal_imbalance(o, disp, tol=1e-6):
    """list of (node, step, sum) where the reported dispatch does not balance"""
    bad = []
    scale = 1.0
    for col, v in disp.items():
        for e in v:
            if e is not None:
                scale = max(scale, abs(e))
    for n in o['nodes']:
        cols = [colname(o, a['name'], n) for a in o['assets'] if n in a['nodes']]
        cols = [c for c in cols if c in disp]
        for t in range(o['T']):
            s = sum((disp[c][t] or 0.0) for c in cols)
            if abs(s) > tol * scale:
                bad.append([n, t, s])
    return bad[:10]


def add_split(specs, every=3):
    """ask for split optimisation on every n-th spec without coarse / periodic assets
    (their combination with short intervals is explored under C14)"""
    for i, sp in enumerate(specs):
        if i % every == 0 and sp['grid']['freq'] in ('h', '30min') and 'split' not in sp['opts']:
            if any(a.get('freq') or a.get('periodicity') for a in sp['assets']):
                continue
            sp['opts']['split'] = {'h': '3h', '30min': '2h'}[sp['grid']['freq']]
    return specs
