"""Independent textbook formulation of a portfolio spec (no eaopack import): used as the reference of C02 / C20 / C12 / C13 / C16.

Variables are PHYSICAL quantities per step of the horizon grid:
  contract / multi-commodity: p_t >= 0 (delivered into the node), q_t >= 0 (taken out), flow f_t = p_t - q_t in [min_t dt_t, max_t dt_t],
            cash_t = -disc_t (price_t f_t + extra_t (p_t + q_t));  take periods: sum of f over the covered steps <= / >= value * covered / period
  transport: g_t in [min dt_t, max dt_t]; node 1 gets -g_t, node 2 gets +eff g_t; cash_t = -disc_t cost_t |g_t|
  storage:   charge a_t in [0, cap_in dt_t], discharge b_t in [0, cap_out dt_t], level_t = level_{t-1} + eff a_t - b_t + inflow dt_t,
             0 <= level_t <= size, level at the last active step = end level,
             cash_t = -disc_t (cost_in a_t + cost_out b_t + cost_store dt_t (level_t - baseline_t)), baseline = start level + accumulated inflow
  order book: e_i in [0,1] (0/1 with full execution); delivery_t = sum_i e_i capa_i dt_t over orders covering t; cash = -e_i capa_i price_i sum_t dt_t disc_t
  every node and step: flows net to zero.
disc_t = (1 + wacc)^(-(elapsed days to the END of step t)/365).
Coarse frequency / periodicity are expressed as equalities between physical rates (constant rate inside a coarse interval, same
dispatch at the same position of every period within a duration); limits and prices are the fine ones averaged over the merged steps.
"""
import numpy as np
import pandas as pd
import scipy.sparse as sp
from scipy.optimize import milp, LinearConstraint, Bounds
import modelspec as M


class LP:
    def __init__(self):
        self.lb, self.ub, self.c, self.integ = [], [], [], []
        self.rows, self.lo, self.hi = [], [], []
        self.names = []

    def var(self, lb, ub, cost=0.0, integer=False, name=''):
        self.lb.append(lb); self.ub.append(ub); self.c.append(cost); self.integ.append(1 if integer else 0); self.names.append(name)
        return len(self.lb) - 1

    def row(self, coefs, lo, hi):
        """coefs: list of (var, coef)"""
        self.rows.append(coefs); self.lo.append(lo); self.hi.append(hi)

    def solve(self):
        n = len(self.lb)
        if n == 0:
            return 'optimal', 0.0, np.zeros(0)
        cons = []
        if self.rows:
            ii, jj, vv = [], [], []
            for i, r in enumerate(self.rows):
                for j, v in r:
                    ii.append(i); jj.append(j); vv.append(v)
            A = sp.csr_matrix((vv, (ii, jj)), shape=(len(self.rows), n))
            cons = [LinearConstraint(A, np.asarray(self.lo, float), np.asarray(self.hi, float))]
        best = None
        # HiGHS' MIP presolve (as bundled with scipy 1.14) was seen to return a wrong "optimal" point on a 22-variable order book
        # problem; problems with integer variables are therefore solved with and without presolve and the better point is kept
        variants = [{'presolve': True}] if not any(self.integ) else [{'presolve': False}, {'presolve': True}]
        status = None
        for opt in variants:
            r = milp(np.asarray(self.c, float), constraints=cons, integrality=np.asarray(self.integ),
                     bounds=Bounds(np.asarray(self.lb, float), np.asarray(self.ub, float)), options=opt)
            if r.status == 0:
                if best is None or -r.fun > best[0]:
                    best = (float(-r.fun), np.asarray(r.x))
            elif r.status == 2 and status is None:
                status = 'infeasible'
            elif status is None:
                status = 'other:%s' % r.status
        if best is not None:
            return 'optimal', best[0], best[1]
        return status, None, None


def pvec(p, spec, tp, default=None):
    """parameter in any accepted form -> value per horizon step (nan where undefined)"""
    g = spec['grid']
    tz = g.get('tz')
    T = len(tp)
    if p is None:
        return np.full(T, np.nan if default is None else default)
    if isinstance(p, (int, float)):
        return np.full(T, float(p))
    if isinstance(p, str):
        return np.asarray(spec['prices'][p], float)
    if isinstance(p, dict) and 'array' in p:
        return np.asarray(p['array'], float)
    st = [M.inst(t, tz) for t in p['start']]
    en = M.implicit_ends(p, tz)
    out = np.full(T, np.nan if default is None else default)
    for k, q in enumerate(tp):
        hit = [v for a, b, v in zip(st, en, p['values']) if a <= q and (b is None or q < b)]
        if len(hit) > 1:
            raise ValueError('overlap')
        if hit:
            out[k] = hit[0]
    return out


def groups_of(a, g, steps, pts):
    """merge structure of an asset: list of groups of horizon steps that must run at one constant rate (coarse frequency)"""
    if not a.get('freq') or a['freq'] == g['freq']:
        return [[t] for t in steps]
    tz = g.get('tz')
    cp = pd.date_range(start=M.tstamp(a.get('start') or g['start'], tz), end=M.tstamp(a.get('end') or g['end'], tz), freq=a['freq'], tz=tz)
    cp = [int(p.value // 10 ** 9) for p in cp]
    out = []
    for lo, hi in zip(cp[:-1], cp[1:]):
        grp = [t for t in steps if lo <= pts[t] < hi]
        if grp:
            out.append(grp)
    return out


def period_classes(a, g, pts):
    """steps that must carry the same dispatch (periodicity): dict step -> (duration number, position within the period).
    Period and duration boundaries are calendar points of the given frequencies (anchored frequencies such as 'W' or 'd'
    start at their anchors, not at the grid start)."""
    if not a.get('periodicity'):
        return None
    tz = g.get('tz')
    T = len(pts) - 1
    tp = pd.date_range(start=M.tstamp(g['start'], tz), end=M.tstamp(g['end'], tz), freq=g['freq'], tz=tz)[:-1]
    fp, fd = a['periodicity'], a.get('periodicity_duration')
    pb = pd.date_range(tp[0] - 2 * M.freq_td_(fp), tp[-1] + 2 * M.freq_td_(fp), freq=fp, tz=tz)
    pb = [int(p.value // 10 ** 9) for p in pb]
    db = None
    if fd is not None:
        db = pd.date_range(tp[0] - 2 * M.freq_td_(fd), tp[-1] + 2 * M.freq_td_(fd), freq=fd, tz=tz)
        db = [int(p.value // 10 ** 9) for p in db]
    key = {}
    for t in range(T):
        last_p = max(b for b in pb if b <= pts[t])
        d = 0 if db is None else sum(1 for b in db if b <= pts[t])
        key[t] = (d, pts[t] - last_p)
    return key


def build(spec, scale=None):
    """reference LP of the spec.  Returns (LP, flows) with flows[(asset, node)] = list over steps of [(var, coef)]"""
    g = spec['grid']
    tz = g.get('tz')
    pts = M.grid_pts(g)
    T = len(pts) - 1
    us = M.unit_secs(g.get('unit', 'h'))
    dt = np.asarray([(pts[t + 1] - pts[t]) / us for t in range(T)])
    elapsed_days = np.cumsum(dt) * us / 86400.0
    gs, ge = M.inst(g['start'], tz), M.inst(g['end'], tz)
    lp = LP()
    flows = {}
    nodal = {}

    def inject(asset, node, t, var, coef):
        flows.setdefault((asset, node), [[] for _ in range(T)])[t].append((var, coef))
        nodal.setdefault((node, t), []).append((var, coef))

    def steps_of(a):
        lo = M.inst(a['start'], tz) if a.get('start') else None
        hi = M.inst(a['end'], tz) if a.get('end') else None
        return [t for t in range(T) if (lo is None or lo <= pts[t]) and (hi is None or pts[t] < hi) and gs <= pts[t] < ge]

    def disc_of(a):
        return (1.0 + (a.get('wacc') or 0.0)) ** (-elapsed_days / 365.0)

    def takes(a, key, cols_of_step, sign, steps, neg=False):
        tk = a.get(key)
        if not tk:
            return
        for s0, e0, v in zip(tk['start'], tk['end'], tk['values']):
            lo, hi = M.inst(s0, tz), M.inst(e0, tz)
            cov = [t for t in steps if lo <= pts[t] < hi]
            if not cov:
                continue
            rhs = (-v if neg else v) * sum(dt[t] for t in cov) / ((hi - lo) / us)
            coefs = [c for t in cov for c in cols_of_step(t)]
            if sign == 'max':
                lp.row(coefs, -np.inf, rhs)
            else:
                lp.row(coefs, rhs, np.inf)

    def tie(a, steps, rate_vars):
        """coarse frequency / periodicity: equal physical rates.  rate_vars: list of dicts step -> var (one dict per variable kind)"""
        for grp in groups_of(a, g, steps, pts):
            for rv in rate_vars:
                for t in grp[1:]:
                    lp.row([(rv[grp[0]], 1.0 / dt[grp[0]]), (rv[t], -1.0 / dt[t])], 0.0, 0.0)
        pc = period_classes(a, g, pts)
        if pc is not None:
            first = {}
            for t in steps:
                k = pc[t]
                if k in first:
                    for rv in rate_vars:
                        lp.row([(rv[first[k]], 1.0), (rv[t], -1.0)], 0.0, 0.0)
                else:
                    first[k] = t

    def avg_over_groups(a, steps, vec):
        out = np.array(vec, float)
        for grp in groups_of(a, g, steps, pts):
            out[grp] = np.mean(out[grp])
        return out

    for a in spec['assets']:
        k = a['kind']
        name = a['name']
        steps = steps_of(a)
        disc = disc_of(a)
        sc = 1.0 if scale is None else scale.get(name, 1.0)
        if k in ('SimpleContract', 'Contract', 'MultiCommodityContract'):
            tp = pts[:-1]
            mn = pvec(a.get('min_cap', 0.0), spec, tp) * sc
            mx = pvec(a.get('max_cap', 0.0), spec, tp) * sc
            ec = pvec(a.get('extra_costs', 0.0), spec, tp, default=0.0)
            pr = np.asarray(spec['prices'][a['price']], float) if a.get('price') else np.zeros(T)
            pr = avg_over_groups(a, steps, pr)
            nodes = a['nodes']
            fac = a.get('factors_commodities') or [1.0] * len(nodes)
            P, Q = {}, {}
            for t in steps:
                if np.isnan(mn[t]) or np.isnan(mx[t]) or mn[t] > mx[t]:
                    raise ValueError('ill-posed contract')
                lo, hi = mn[t] * dt[t], mx[t] * dt[t]
                P[t] = lp.var(max(0.0, lo), max(0.0, hi), disc[t] * (pr[t] + ec[t]), name='%s.p%d' % (name, t))
                Q[t] = lp.var(max(0.0, -hi), max(0.0, -lo), disc[t] * (-pr[t] + ec[t]), name='%s.q%d' % (name, t))
                for n, f in zip(nodes, fac):
                    inject(name, n, t, P[t], f)
                    inject(name, n, t, Q[t], -f)
            if k != 'SimpleContract':
                cols = lambda t: [(P[t], 1.0), (Q[t], -1.0)]
                takes(a, 'max_take', cols, 'max', steps)
                takes(a, 'min_take', cols, 'min', steps)
            # the bounds of a merged step are the averages of the fine bounds (documented); with equal rates the fine bounds of
            # every member apply only through that average, so the reference relaxes them to the group mean
            if a.get('freq') or a.get('periodicity'):
                relax_to_group_mean(lp, a, g, steps, pts, dt, [(P, Q)], mn, mx)
            tie(a, steps, [P, Q])
        elif k in ('Transport', 'ExtendedTransport'):
            cts = np.asarray(spec['prices'][a['costs_time_series']], float) if a.get('costs_time_series') else np.zeros(T)
            cts = avg_over_groups(a, steps, cts) + a.get('costs_const', 0.0)
            mn, mx = a.get('min_cap', 0.0) * sc, a.get('max_cap', 0.0) * sc
            eff = a.get('efficiency', 1.0)
            n1, n2 = a['nodes']
            if mn < 0 < mx and np.any(cts != 0):
                raise ValueError('transport in both directions with costs is rejected')
            Gv = {}
            for t in steps:
                cost = cts[t] if mn >= 0 else -cts[t]          # cost on |g|
                Gv[t] = lp.var(mn * dt[t], mx * dt[t], disc[t] * cost, name='%s.g%d' % (name, t))
                inject(name, n1, t, Gv[t], -1.0)
                inject(name, n2, t, Gv[t], eff)
            if k == 'ExtendedTransport':
                cols = lambda t: [(Gv[t], 1.0)]            # quantity leaving node 1
                takes(a, 'max_take', cols, 'max', steps)
                takes(a, 'min_take', cols, 'min', steps)
            tie(a, steps, [Gv])
        elif k == 'Storage':
            if not steps:
                continue
            eff = a.get('eff_in', 1.0)
            infl = a.get('inflow', 0.0)
            size, s0, e0 = a['size'] * sc, a.get('start_level', 0.0) * sc, a.get('end_level', 0.0) * sc
            nodes = a['nodes']
            n_in, n_out = nodes[0], nodes[-1]
            pr = np.asarray(spec['prices'][a['price']], float) if a.get('price') else np.zeros(T)
            pr = avg_over_groups(a, steps, pr)
            cs = a.get('cost_store', 0.0)
            Av, Bv = {}, {}
            # holding cost on (level_t - baseline_t) = sum_{s<=t} (eff a_s - b_s): coefficient of a_s is eff * sum_{t>=s} cs dt_t disc_t
            tail = np.zeros(T)
            acc = 0.0
            for t in reversed(steps):
                acc += cs * dt[t] * disc[t]
                tail[t] = acc
            for t in steps:
                Av[t] = lp.var(0.0, a['cap_in'] * sc * dt[t], disc[t] * (a.get('cost_in', 0.0) + pr[t]) + eff * tail[t], name='%s.a%d' % (name, t))
                Bv[t] = lp.var(0.0, a['cap_out'] * sc * dt[t], disc[t] * (a.get('cost_out', 0.0) - pr[t]) - tail[t], name='%s.b%d' % (name, t))
                inject(name, n_in, t, Av[t], -1.0)
                inject(name, n_out, t, Bv[t], 1.0)
            cum = []
            infl_acc = 0.0
            for i, t in enumerate(steps):
                cum = cum + [(Av[t], eff), (Bv[t], -1.0)]
                infl_acc += infl * sc * dt[t]
                if i == len(steps) - 1:
                    lp.row(list(cum), e0 - s0 - infl_acc, e0 - s0 - infl_acc)
                else:
                    lp.row(list(cum), -s0 - infl_acc, size - s0 - infl_acc)
            if a.get('no_simult_in_out'):
                for t in steps:
                    m = lp.var(0.0, 1.0, 0.0, integer=True)
                    lp.row([(Av[t], 1.0), (m, -a['cap_in'] * sc * dt[t])], -np.inf, 0.0)
                    lp.row([(Bv[t], 1.0), (m, a['cap_out'] * sc * dt[t])], -np.inf, a['cap_out'] * sc * dt[t])
            tie(a, steps, [Av, Bv])
        elif k == 'OrderBook':
            o = a['orders']
            node = a['nodes'][0]
            disc = disc_of(a)
            for i, (s1, e1, ca, prc) in enumerate(zip(o['start'], o['end'], o['capa'], o['price'])):
                lo, hi = M.inst(s1, tz), M.inst(e1, tz)
                cov = [t for t in range(T) if lo <= pts[t] < hi]
                e = lp.var(0.0, 1.0, ca * prc * sum(dt[t] * disc[t] for t in cov), integer=bool(a.get('full_exec')), name='%s.e%d' % (name, i))
                for t in cov:
                    inject(name, node, t, e, ca * dt[t])
        else:
            raise ValueError('reference formulation does not cover ' + k)
    for (node, t), coefs in nodal.items():
        lp.row(coefs, 0.0, 0.0)
    return lp, flows


def relax_to_group_mean(lp, a, g, steps, pts, dt, pairs, mn, mx):
    """for merged steps the documented limits are the means over the merged steps: replace the per-step bounds of the contract's
    variables by the bounds derived from the mean limits"""
    groups = groups_of(a, g, steps, pts)
    pc = period_classes(a, g, pts)
    if pc is not None:
        cls = {}
        for t in steps:
            cls.setdefault(pc[t], []).append(t)
        groups = list(cls.values())
    for grp in groups:
        if len(grp) < 2:
            continue
        if a.get('freq'):
            # one coarse step: limit = mean rate limit x own step length (rates are equal inside the group)
            lo_r = np.mean([mn[t] for t in grp])
            hi_r = np.mean([mx[t] for t in grp])
            for P, Q in pairs:
                for t in grp:
                    lo, hi = lo_r * dt[t], hi_r * dt[t]
                    lp.lb[P[t]], lp.ub[P[t]] = max(0.0, lo), max(0.0, hi)
                    lp.lb[Q[t]], lp.ub[Q[t]] = max(0.0, -hi), max(0.0, -lo)
        else:
            lo_v = np.mean([mn[t] * dt[t] for t in grp])
            hi_v = np.mean([mx[t] * dt[t] for t in grp])
            for P, Q in pairs:
                for t in grp:
                    lp.lb[P[t]], lp.ub[P[t]] = max(0.0, lo_v), max(0.0, hi_v)
                    lp.lb[Q[t]], lp.ub[Q[t]] = max(0.0, -hi_v), max(0.0, -lo_v)


def flow_values(flows, x, T):
    return {k: [sum(x[v] * c for v, c in cell) for cell in cells] for k, cells in flows.items()}


def check_dispatch(spec, disp, tol=1e-6):
    """is a dispatch table {(asset, node): values per step} feasible for the reference model, and what is it worth there?
    The flows are fixed (within a band that is widened step by step up to tol x scale, because the table comes from a
    floating-point solver) and the reference objective is maximised over the remaining freedom (internal split into p/q,
    charge/discharge, order fractions).  Returns (status, value)."""
    scale = 1.0 + max([abs(v) for vals in disp.values() for v in vals if v is not None] + [0.0])
    st, val = None, None
    for band in (tol * 1e-3, tol * 1e-2, tol * 1e-1, tol):
        lp, flows = build(spec)
        for key, cells in flows.items():
            vals = disp.get(key)
            if vals is None:
                continue
            for t, cell in enumerate(cells):
                if cell:
                    v = vals[t] or 0.0
                    lp.row(cell, v - band * scale, v + band * scale)
        st, val, _ = lp.solve()
        if st == 'optimal':
            return st, val
    return st, val
