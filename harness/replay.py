"""Replay of a violation file written by a check:
    /venv/bin/python harness/replay.py replays/Cxx/<kind>_<hash>.json
Rebuilds the objects of the recorded spec against /repo (or VERIF_REPO), re-runs the property's
whole check (implementation oracle, correspondence, certificates) on that single input and
exits 1 / prints REPRODUCED when the violation shows again.  For replays without an input
(proof-broken, harness-error) the named obligation is re-run: the Coq build of the property file."""
import sys, os, json, importlib, traceback
sys.path.insert(0, os.path.dirname(os.path.abspath(__file__)))
import common
import check


def main():
    fn = sys.argv[1]
    d = json.load(open(fn))
    prop = d['property']
    common.TAG = prop + '_replay'
    ctx = check.Ctx(prop, 'quick', int(d.get('seed') or 0))
    print('replaying %s: property %s, kind %s' % (fn, prop, d.get('kind')))
    if d.get('theorem_or_correspondence'):
        print('obligation:', d['theorem_or_correspondence'])
    mod = importlib.import_module('props.' + prop)
    sp = d.get('spec')
    if isinstance(sp, dict) and 'id' in sp:
        sp.setdefault('opts', {})
        ctx.replay = [sp]
    else:
        ctx.replay = []           # no input: only the proof gate is re-run
    try:
        mod.run(ctx)
    except Exception as e:
        ctx.broken('harness-error', {'theorem_or_correspondence': 'harness', 'error': repr(e), 'trace': traceback.format_exc()[-4000:]})
    for fnv, found, kind in ctx.violations:
        print('  ', kind, fnv)
    ctx.finish()


if __name__ == '__main__':
    main()
