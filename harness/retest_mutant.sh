#!/bin/bash
# usage: retest_mutant.sh <id> [<prop> ...]   -- development aid (not a registered command)
# re-runs the quick checks against a kept seeded change in a scratch worktree (never /repo itself) and rewrites caught_by in its meta.json
id=$1; shift
props="$@"; [ -z "$props" ] && props=${id%%_*}
wt=/tmp/mut/rt_$id
mkdir -p /tmp/mut
git -C /repo worktree remove --force $wt 2>/dev/null
git -C /repo worktree add -q --detach $wt HEAD || exit 2
git -C $wt apply /verif/seeded/$id/patch.diff || { echo "$id: patch does not apply"; git -C /repo worktree remove --force $wt; exit 2; }
cd /verif
caught=()
for p in $props; do
  out=$(VERIF_REPO=$wt VERIF_TAG=_rt$id VERIF_EVIDENCE_DIR=/verif/build/evidence_mut /venv/bin/python harness/check.py "$p" --tier quick 2>&1 | grep -E "^VIOLATION" | head -1)
  if [ -n "$out" ]; then
    kind=$(echo "$out" | sed 's/.*replay=[^ ]*\/\([a-z-]*\)_[0-9a-f]*\.json.*/\1/')
    nf=""; echo "$out" | grep -q no-failing-input-found && nf=" (no failing input found)"
    caught+=("$p: $kind$nf")
    echo "$id vs $p: CAUGHT $kind$nf"
  else
    echo "$id vs $p: missed"
  fi
done
git -C /repo worktree remove --force $wt
rm -rf /verif/build/impl/*_rt$id* /verif/build/cases/*_rt$id*
/venv/bin/python - "$id" "${caught[@]}" <<'PY'
import sys, json
f = '/verif/seeded/%s/meta.json' % sys.argv[1]
m = json.load(open(f))
m['caught_by'] = sys.argv[2:]
m['ran'] = 'harness/retest_mutant.sh %s' % sys.argv[1]
json.dump(m, open(f, 'w'), indent=1)
PY
