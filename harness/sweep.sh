#!/bin/bash
# development aid: run the quick checks of all registered properties for several seeds; prints one line per (seed, property)
# usage: sweep.sh "<seeds>" [tier]
cd "$(dirname "$0")/.."
bash setup.sh > /dev/null 2>&1 || { echo "setup failed"; exit 1; }
props=$(python3 -c "import json; print(' '.join(c['property_id'] for c in json.load(open('MANIFEST.json'))['checks']))")
for s in $1; do
  for p in $props; do
    out=$(VERIF_SEED=$s VERIF_EVIDENCE_DIR=$PWD/build/evidence_sweep /venv/bin/python harness/check.py $p --tier ${2:-quick} 2>&1)
    rc=$?
    echo "seed=$s $p rc=$rc $(echo "$out" | grep -c KNOWN-FINDING) known $(echo "$out" | grep VIOLATION | head -2 | tr '\n' ' ')"
  done
done
