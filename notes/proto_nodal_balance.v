From Coq Require Import QArith List Lia Lqa Bool String.
Import ListNotations.
Open Scope Q_scope.

Fixpoint qsum (l : list Q) : Q := match l with [] => 0 | a :: l' => a + qsum l' end.
Definition srow := list (nat * Q).
Definition sdot (r : srow) (x : list Q) : Q := qsum (map (fun '(j,a) => a * nth j x 0) r).

Inductive vtype := TD | TI | TOther (s : string).
Record mrow := { m_var : nat; m_asset : string; m_node : option string; m_type : vtype;
                 m_step : nat; m_factor : Q }.

Definition is_d (r : mrow) : bool := match m_type r with TD => true | _ => false end.
Definition at_node (n : string) (r : mrow) : bool :=
  match m_node r with Some n' => String.eqb n n' | None => false end.
Definition sel (n : string) (t : nat) (r : mrow) : bool := is_d r && at_node n r && Nat.eqb (m_step r) t.

(* portfolio.py:135-162 : one row per (node, step) that has at least one dispatch row *)
Definition nodal_row (map_ : list mrow) (n : string) (t : nat) : srow :=
  List.map (fun r => (m_var r, m_factor r)) (filter (sel n t) map_).
Definition nodal_rows (nodes : list string) (skip : list string) (steps : list nat) (map_ : list mrow)
  : list (nat * string * srow) :=
  flat_map (fun n => if existsb (String.eqb n) skip then [] else
     flat_map (fun t => match nodal_row map_ n t with [] => [] | r => [(t, n, r)] end) steps) nodes.

(* io.py:62-75 *)
Definition dispatch_out (map_ : list mrow) (x : list Q) (a n : string) (t : nat) : Q :=
  qsum (List.map (fun r => nth (m_var r) x 0 * m_factor r)
       (filter (fun r => String.eqb (m_asset r) a && sel n t r) map_)).

Lemma qsum_app l1 l2 : qsum (l1 ++ l2) == qsum l1 + qsum l2.
Proof. induction l1; simpl; [ring| rewrite IHl1; ring]. Qed.

Lemma sdot_nodal_row map_ n t x :
  sdot (nodal_row map_ n t) x == qsum (List.map (fun r => nth (m_var r) x 0 * m_factor r) (filter (sel n t) map_)).
Proof.
  unfold sdot, nodal_row. induction (filter (sel n t) map_) as [|r l IH]; simpl; [reflexivity|].
  rewrite IH. ring.
Qed.

(* sum over assets of per-asset dispatch = sum over all selected rows, if every row's asset occurs exactly once in the asset list *)
Lemma split_by_assets (assets : list string) (f : mrow -> Q) (l : list mrow) :
  NoDup assets -> Forall (fun r => In (m_asset r) assets) l ->
  qsum (List.map (fun a => qsum (List.map f (filter (fun r => String.eqb (m_asset r) a) l))) assets)
  == qsum (List.map f l).
Proof.
  intros Hnd. induction l as [|r l IH]; intros HF.
  - simpl. induction assets; simpl; [reflexivity|]. inversion Hnd; subst. rewrite IHassets; auto. ring.
  - inversion HF as [|? ? Hin HF']; subst. specialize (IH HF'). simpl List.map at 2. simpl qsum at 3. rewrite <- IH. clear IH HF HF'.
    induction assets as [|a assets IHa]; [inversion Hin|].
    inversion Hnd as [|? ? Hni Hnd']; subst. simpl.
    destruct (String.eqb (m_asset r) a) eqn:E.
    + apply String.eqb_eq in E. subst a. simpl.
      assert (Hrest: qsum (List.map (fun a => qsum (List.map f (filter (fun r0 => String.eqb (m_asset r0) a) (r :: l)))) assets)
                  == qsum (List.map (fun a => qsum (List.map f (filter (fun r0 => String.eqb (m_asset r0) a) l))) assets)).
      { clear -Hni. induction assets as [|b assets IHb]; simpl; [reflexivity|].
        destruct (String.eqb (m_asset r) b) eqn:E2. { apply String.eqb_eq in E2. exfalso. apply Hni. left. auto. }
        rewrite IHb. reflexivity. intro H. apply Hni. right. exact H. }
      rewrite Hrest. ring.
    + destruct Hin as [Hin|Hin]. { subst a. rewrite String.eqb_refl in E. discriminate. }
      rewrite (IHa Hnd' Hin). ring.
Qed.

Lemma filter_filter {A} (p q : A -> bool) l : filter p (filter q l) = filter (fun r => p r && q r) l.
Proof. induction l; simpl; auto. destruct (q a) eqn:Eq; simpl; destruct (p a); simpl; rewrite ?IHl; auto. Qed.

Theorem nodal_balance (assets nodes skip : list string) (steps : list nat) (map_ : list mrow) (x : list Q) :
  NoDup assets ->
  Forall (fun r => In (m_asset r) assets) map_ ->
  Forall (fun '(t, n, row) => sdot row x == 0) (nodal_rows nodes skip steps map_) ->
  forall n t, In n nodes -> existsb (String.eqb n) skip = false -> In t steps ->
  qsum (List.map (fun a => dispatch_out map_ x a n t) assets) == 0.
Proof.
  intros Hnd Hin Hrows n t Hn Hskip Ht.
  unfold dispatch_out.
  assert (E: forall a, filter (fun r => String.eqb (m_asset r) a && sel n t r) map_
                      = filter (fun r => String.eqb (m_asset r) a) (filter (sel n t) map_)).
  { intro a. rewrite filter_filter. reflexivity. }
  erewrite map_ext; [| intro a; rewrite E; reflexivity].
  rewrite (split_by_assets assets (fun r => nth (m_var r) x 0 * m_factor r) (filter (sel n t) map_) Hnd).
  2:{ rewrite Forall_forall in *. intros r Hr. apply filter_In in Hr. apply Hin. tauto. }
  rewrite <- sdot_nodal_row.
  destruct (nodal_row map_ n t) as [|e row] eqn:Er; [reflexivity|].
  rewrite Forall_forall in Hrows. specialize (Hrows (t, n, e :: row)). simpl in Hrows. apply Hrows.
  unfold nodal_rows. apply in_flat_map. exists n. split; auto. rewrite Hskip.
  apply in_flat_map. exists t. split; auto. rewrite Er. left. reflexivity.
Qed.
Print Assumptions nodal_balance.
