From Coq Require Import QArith Qminmax List Lia Lqa Bool.
Import ListNotations.
Open Scope Q_scope.

Fixpoint dot (a x : list Q) : Q :=
  match a, x with
  | a0 :: a', x0 :: x' => a0 * x0 + dot a' x'
  | _, _ => 0
  end.

Inductive rtype := RU | RL | RS.
Record row := { coef : list Q; rt : rtype; rhs : Q }.

Definition row_ok (r : row) (x : list Q) : Prop :=
  match rt r with
  | RU => dot (coef r) x <= rhs r
  | RL => dot (coef r) x >= rhs r
  | RS => dot (coef r) x == rhs r
  end.

Fixpoint in_box (l u x : list Q) : Prop :=
  match l, u, x with
  | l0 :: l', u0 :: u', x0 :: x' => l0 <= x0 /\ x0 <= u0 /\ in_box l' u' x'
  | [], [], [] => True
  | _, _, _ => False
  end.

Definition feasible (rows : list row) (l u x : list Q) : Prop :=
  in_box l u x /\ Forall (fun r => row_ok r x) rows.

(* multiplier sign projection *)
Definition ysign (t : rtype) (y : Q) : Q :=
  match t with
  | RU => Qmax 0 y
  | RL => Qmin 0 y
  | RS => y
  end.

(* combination: sum_i y_i * coef_i  (as vector of length n) and sum y_i rhs_i *)
Fixpoint vadd (a b : list Q) : list Q :=
  match a, b with
  | a0 :: a', b0 :: b' => (a0 + b0) :: vadd a' b'
  | [], b => b
  | a, [] => a
  end.
Definition vscale (k : Q) (a : list Q) := map (fun v => k * v) a.

Fixpoint comb (rows : list row) (y : list Q) (n : nat) : list Q * Q :=
  match rows, y with
  | r :: rows', y0 :: y' =>
      let '(v, s) := comb rows' y' n in
      let k := ysign (rt r) y0 in
      (vadd (vscale k (coef r)) v, k * rhs r + s)
  | _, _ => (repeat 0 n, 0)
  end.

(* sup of d.x over the box *)
Fixpoint boxsup (d l u : list Q) : Q :=
  match d, l, u with
  | d0 :: d', l0 :: l', u0 :: u' =>
      (if Qle_bool 0 d0 then d0 * u0 else d0 * l0) + boxsup d' l' u'
  | _, _, _ => 0
  end.

Lemma dot_vadd : forall a b x, length a = length x -> length b = length x ->
  dot (vadd a b) x == dot a x + dot b x.
Proof.
  induction a as [|a0 a IH]; intros b x Ha Hb; destruct x as [|x0 x]; destruct b as [|b0 b]; simpl in *; try discriminate; try ring.
  rewrite IH by lia. ring.
Qed.

Lemma dot_vscale : forall k a x, dot (vscale k a) x == k * dot a x.
Proof.
  induction a as [|a0 a IH]; intros x; destruct x as [|x0 x]; simpl; try ring.
  rewrite IH. ring.
Qed.

Lemma dot_repeat0 : forall n x, dot (repeat 0 n) x == 0.
Proof. induction n; intros [|x0 x]; simpl; try reflexivity. rewrite IHn. ring. Qed.

Lemma vadd_length : forall a b, length a = length b -> length (vadd a b) = length a.
Proof. induction a; destruct b; simpl; intros; try discriminate; auto. Qed.

Lemma boxsup_ub : forall d l u x, in_box l u x -> length d = length x -> dot d x <= boxsup d l u.
Proof.
  induction d as [|d0 d IH]; intros l u x Hb Hl; destruct x as [|x0 x]; simpl in *; try discriminate; try lra.
  destruct l as [|l0 l]; destruct u as [|u0 u]; simpl in Hb; try contradiction.
  destruct Hb as (H1 & H2 & H3).
  specialize (IH l u x H3 ltac:(lia)).
  destruct (Qle_bool 0 d0) eqn:E.
  - apply Qle_bool_iff in E.
    assert (0 <= d0 * (u0 - x0)) by (apply Qmult_le_0_compat; lra).
    lra.
  - assert (Hd: d0 < 0). { destruct (Qlt_le_dec d0 0); auto. apply Qle_bool_iff in q. congruence. }
    assert (0 <= (-d0) * (x0 - l0)) by (apply Qmult_le_0_compat; lra).
    lra.
Qed.

Lemma comb_length : forall rows y n, Forall (fun r => length (coef r) = n) rows -> length (fst (comb rows y n)) = n.
Proof.
  induction rows as [|r rows IH]; intros y n H; simpl.
  - apply repeat_length.
  - destruct y as [|y0 y]; simpl; [apply repeat_length|].
    inversion H; subst. specialize (IH y _ H3).
    destruct (comb rows y (length (coef r))) as [v s] eqn:E. simpl in *.
    rewrite vadd_length; unfold vscale; rewrite map_length; auto.
Qed.

Lemma comb_bound : forall rows y n x, length x = n ->
  Forall (fun r => length (coef r) = n) rows ->
  Forall (fun r => row_ok r x) rows ->
  dot (fst (comb rows y n)) x <= snd (comb rows y n).
Proof.
  induction rows as [|r rows IH]; intros y n x Hx Hn Hok; simpl.
  - rewrite dot_repeat0. lra.
  - destruct y as [|y0 y]; simpl; [rewrite dot_repeat0; lra|].
    inversion Hn; subst. inversion Hok; subst.
    specialize (IH y _ x eq_refl H2 H4).
    pose proof (comb_length rows y _ H2) as HL.
    destruct (comb rows y (length x)) as [v s] eqn:E. simpl in *.
    rewrite dot_vadd; [| unfold vscale; rewrite map_length; lia | lia].
    rewrite dot_vscale.
    unfold row_ok in H3. destruct (rt r); simpl.
    + assert (0 <= Qmax 0 y0) by apply Q.le_max_l.
      assert (0 <= Qmax 0 y0 * (rhs r - dot (coef r) x)) by (apply Qmult_le_0_compat; lra). lra.
    + assert (Qmin 0 y0 <= 0) by apply Q.le_min_l.
      assert (0 <= (- Qmin 0 y0) * (dot (coef r) x - rhs r)) by (apply Qmult_le_0_compat; lra). lra.
    + rewrite H3. lra.
Qed.

Definition dual_bound (obj : list Q) (rows : list row) (l u y : list Q) : Q :=
  let '(v, s) := comb rows y (length obj) in
  s + boxsup (vadd obj (vscale (-1) v)) l u.

Theorem weak_duality : forall obj rows l u y x,
  length x = length obj ->
  Forall (fun r => length (coef r) = length obj) rows ->
  feasible rows l u x ->
  dot obj x <= dual_bound obj rows l u y.
Proof.
  intros obj rows l u y x Hx Hn [Hb Hr]. unfold dual_bound.
  pose proof (comb_bound rows y _ x Hx Hn Hr) as HB.
  pose proof (comb_length rows y _ Hn) as HL.
  destruct (comb rows y (length obj)) as [v s]. simpl in *.
  assert (Hd: dot (vadd obj (vscale (-1) v)) x <= boxsup (vadd obj (vscale (-1) v)) l u).
  { apply boxsup_ub; auto. rewrite vadd_length; unfold vscale; rewrite ?map_length; lia. }
  rewrite dot_vadd in Hd; [| lia | unfold vscale; rewrite map_length; lia].
  rewrite dot_vscale in Hd. lra.
Qed.
Print Assumptions weak_duality.
