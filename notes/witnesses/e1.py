import sys; sys.path.insert(0,'/repo')
import numpy as np, pandas as pd, datetime as dt
import eaopack as eao
np.set_printoptions(linewidth=200, precision=4, suppress=True)
print("=== 1. OrderBook with order outside horizon")
node = eao.assets.Node('N')
tg = eao.assets.Timegrid(dt.date(2021,1,1), dt.date(2021,1,2), freq='6h')
orders = {'start':[pd.Timestamp(2021,1,1), pd.Timestamp(2021,2,1), pd.Timestamp(2021,1,1,12)],
          'end':[pd.Timestamp(2021,1,1,12), pd.Timestamp(2021,2,2), pd.Timestamp(2021,1,2)],
          'capa':[1.,1.,-1.], 'price':[1., -100., 5.]}
ob = eao.assets.OrderBook('OB', node, orders=orders)
sc = eao.assets.SimpleContract(name='SC', nodes=node, price='p', min_cap=-10, max_cap=10)
prices={'p':np.array([1.,2,3,4])}
for order in ([ob,sc],[sc,ob]):
    p = eao.portfolio.Portfolio(order)
    op = p.setup_optim_problem(prices, tg)
    print([a.name for a in order], 'nvars', len(op.c), 'A', op.A.shape, 'c', op.c)
    print(op.mapping[['asset','time_step','var_name','disp_factor']].assign(c=lambda d: op.c[d.index]))
    res = op.optimize()
    print('value', res if isinstance(res,str) else (res.value, res.x))
# without the out-of-horizon order
orders2 = {k:[v[0],v[2]] for k,v in orders.items()}
ob2 = eao.assets.OrderBook('OB', node, orders=orders2)
p = eao.portfolio.Portfolio([ob2,sc]); op=p.setup_optim_problem(prices,tg); res=op.optimize(); print('without:', res.value, res.x)
