import sys; sys.path.insert(0,'/repo')
import numpy as np, pandas as pd, datetime as dt
import eaopack as eao
np.set_printoptions(linewidth=200, precision=6, suppress=True)
def tryit(label, f):
    try:
        r = f(); print(label, '->', r)
    except Exception as e:
        print(label, 'EXC', type(e).__name__, str(e)[:200])
node = eao.assets.Node('N'); n2=eao.assets.Node('M')
tg = eao.assets.Timegrid(dt.date(2021,1,1), dt.datetime(2021,1,1,8), freq='h')
pr = {'p':np.arange(8.)}
a = eao.assets.SimpleContract(name='a', nodes=node, price='p', min_cap=-1., max_cap=1, extra_costs=0.5, freq='2h')
tryit('two-var contract coarse', lambda: a.setup_optim_problem(pr, tg).mapping[['time_step','var_name','disp_factor']].values.tolist())
st = eao.assets.Storage('st', nodes=node, size=2, cap_in=1, cap_out=1, eff_in=0.5, freq='2h')
tryit('two-var storage coarse', lambda: st.setup_optim_problem(pr, tg).mapping[['time_step','var_name','disp_factor']].values.tolist())
a = eao.assets.SimpleContract(name='a', nodes=node, price='p', min_cap=-1., max_cap=1, extra_costs=0.5, periodicity='4h')
def f():
    op = a.setup_optim_problem(pr, tg); return (op.c, op.l, op.u, op.mapping.index.tolist())
tryit('two-var contract periodic', f)
tr = eao.assets.Transport(name='tr', nodes=[node,n2], min_cap=0, max_cap=1, freq='2h', efficiency=0.5)
tryit('transport coarse', lambda: tr.setup_optim_problem(pr, tg).mapping[['time_step','node','disp_factor']].values.tolist())
