import sys; sys.path.insert(0,'/repo')
import numpy as np, pandas as pd, datetime as dt
import eaopack as eao
np.set_printoptions(linewidth=200, precision=6, suppress=True)
node = eao.assets.Node('N'); n2=eao.assets.Node('M')
tg = eao.assets.Timegrid(dt.date(2021,1,1), dt.datetime(2021,1,1,6), freq='h')
pr = {'p':-np.ones(6)*10, 'z':np.zeros(6)}
sink = eao.assets.SimpleContract(name='sink', nodes=node, price='z', min_cap=-100., max_cap=100)
print("=== C06 first-step ramp when already running")
for kw in (dict(time_already_running=5, last_dispatch=2.), dict(time_already_running=0, last_dispatch=0.), dict(time_already_running=5, last_dispatch=2., min_cap=0.)):
    args = dict(name='pl', nodes=[node], price='p', min_cap=1., max_cap=10., ramp=1.); args.update(kw)
    pl = eao.assets.Plant(**args)
    p = eao.portfolio.Portfolio([pl, sink]); op = p.setup_optim_problem(pr, tg); res = op.optimize()
    m = op.mapping[(op.mapping.asset=='pl')&(op.mapping.var_name=='disp')]
    print(kw, 'disp', res.x[m.index].round(3))
print("=== C18 nodal price sign")
tg = eao.assets.Timegrid(dt.date(2021,1,1), dt.datetime(2021,1,1,3), freq='h')
pr = {'p':np.array([1.,2,3]), 'q':np.array([5.,5,5])}
buy = eao.assets.SimpleContract(name='buy', nodes=node, price='p', min_cap=-1., max_cap=0)
sell = eao.assets.SimpleContract(name='sell', nodes=node, price='q', min_cap=0., max_cap=2)
p = eao.portfolio.Portfolio([buy, sell]); op = p.setup_optim_problem(pr, tg); res = op.optimize()
out = eao.io.extract_output(p, op, res, pr)
print(out['prices']); print('value', res.value, 'x', res.x.round(3))
# perturb: add injection d at node at step 0
for d in (0.1,-0.1):
    op2 = p.setup_optim_problem(pr, tg); 
    iN = [i for i,c in enumerate(op2.cType) if c=='N'][0]
    op2.b[iN] = -d   # sum disp = -d  <=> sum disp + d = 0
    r2 = op2.optimize(); print('d',d,'new value', r2.value, 'delta', r2.value-res.value)
