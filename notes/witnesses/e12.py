import sys; sys.path.insert(0,'/repo')
import numpy as np, pandas as pd, datetime as dt
import eaopack as eao
S = eao.serialization
node = eao.assets.Node('N')
def mk():
    mc = {'start':[dt.datetime(2021,1,1), dt.datetime(2021,1,1,3)], 'end':[dt.datetime(2021,1,1,3), dt.datetime(2021,1,1,6)], 'values':[1.,2.]}
    a = eao.assets.SimpleContract(name='a', nodes=node, price='p', min_cap=-1., max_cap=mc)
    p = eao.portfolio.Portfolio([a]); p.set_timegrid(eao.assets.Timegrid(dt.date(2021,1,1), dt.datetime(2021,1,1,6), freq='h', timezone='CET'))
    return p
pr = {'p':np.ones(6)}
s = S.to_json(mk())
print('orig ok:', mk().setup_optim_problem(pr).u)
q = S.load_from_json(s)
print('loaded tz attr', q.timegrid.tz, 'timepoints tz', q.timegrid.timepoints.tz)
try: print('loaded:', q.setup_optim_problem(pr).u)
except Exception as e: print('loaded EXC', type(e).__name__, str(e)[:120])
print('same json', S.to_json(S.load_from_json(s))==s)
