import sys; sys.path.insert(0,'/repo')
import numpy as np, pandas as pd, datetime as dt, itertools, io, contextlib
import eaopack as eao
node = eao.assets.Node('N')
T=6
tg = eao.assets.Timegrid(dt.date(2021,1,1), dt.datetime(2021,1,1,T), freq='h')
pr = {'p':np.zeros(T)}
def spec(pat, R, D, tar, tao):
    # run-length spec; initial state: running for tar steps (tar>0) or off for tao steps (tao>0); if both 0 -> treated as "just started nothing known": off before, no restriction
    prev_on = tar>0
    run = tar if prev_on else tao   # length of current run before horizon
    on = prev_on
    for t,p in enumerate(pat):
        if p == on: run += 1
        else:
            # switching: check min length of the run that ends
            if on and run < R: return False
            if (not on) and run < D and not (t==0 and tao==0 and tar==0): return False
            on = p; run = 1
    return True
def feasible(pat, **kw):
    pl = eao.assets.Plant(name='pl', nodes=[node], price='p', min_cap=1., max_cap=2., **kw)
    sink = eao.assets.SimpleContract(name='s', nodes=node, min_cap=-10, max_cap=10, price='p')
    p = eao.portfolio.Portfolio([pl, sink])
    with contextlib.redirect_stdout(io.StringIO()):
        op = p.setup_optim_problem(pr, tg)
    m = op.mapping
    ion = m.index[(m.var_name=='bool_on')].values
    if len(ion)==0: return None
    if np.any(pat < op.l[ion]) or np.any(pat > op.u[ion]): return False
    op.l[ion] = pat; op.u[ion] = pat
    if not np.all(op.l<=op.u): return False
    with contextlib.redirect_stdout(io.StringIO()):
        r = op.optimize(solver='SCIPY')
    return not isinstance(r, str)
for (R,D,tar,tao) in [(3,0,0,0),(3,0,1,0),(3,0,0,2),(0,3,0,1),(0,3,0,5),(2,2,0,5),(3,2,2,0),(0,3,5,0),(0,3,1,0),(3,3,1,0)]:
    bad=[]
    for pat in itertools.product([0,1],repeat=T):
        f = feasible(np.array(pat,float), min_runtime=R, min_downtime=D, time_already_running=tar, time_already_off=tao)
        s = spec([bool(b) for b in pat], max(R,1), max(D,1), tar, tao)
        if f is None: bad='no on vars'; break
        if f != s: bad.append((''.join(map(str,pat)), 'impl' , f, 'spec', s))
    print((R,D,tar,tao), 'mismatches', len(bad) if isinstance(bad,list) else bad, bad[:6] if isinstance(bad,list) else '')
