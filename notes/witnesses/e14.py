import sys; sys.path.insert(0,'/repo')
import numpy as np, pandas as pd, datetime as dt, io, contextlib
import eaopack as eao
node = eao.assets.Node('N'); n2 = eao.assets.Node('M')
T=8
tg = eao.assets.Timegrid(dt.date(2021,1,1), dt.datetime(2021,1,1,T), freq='h')
pr = {'p':np.array([1.,5,2,6,1,7,3,4]), 'z':np.zeros(T)}
mk = lambda: eao.assets.SimpleContract(name='mk', nodes=node, min_cap=-10, max_cap=10, price='p')
def val(assets):
    p = eao.portfolio.Portfolio(assets); op = p.setup_optim_problem(pr, tg); r = op.optimize(); return r if isinstance(r,str) else round(r.value,5)
print("=== C16 scaled, fixed scale s=3, norm 2")
s, S, fc = 3., 2., 0.25
base = lambda k: eao.assets.Storage('st', nodes=node, size=4*k, cap_in=1*k, cap_out=2*k, start_level=1*k, end_level=0.5*k, inflow=0.125*k, eff_in=0.5, cost_in=0.25)
sc = eao.assets.ScaledAsset(name='sc', base_asset=base(1), min_scale=s, max_scale=s, norm_scale=S, fix_costs=fc)
print('scaled', val([sc, mk()]), ' base*s/S - fix', val([base(s/S), mk()]) - s*fc*T)
tr = lambda k: eao.assets.Transport(name='tr', nodes=[node,n2], min_cap=0, max_cap=1*k, efficiency=0.5, costs_const=0.5)
sell = lambda: eao.assets.SimpleContract(name='sell', nodes=n2, min_cap=-10, max_cap=0, price='q')
pr['q'] = np.ones(T)*20
sc = eao.assets.ScaledAsset(name='sc', base_asset=tr(1), min_scale=s, max_scale=s, norm_scale=S, fix_costs=fc)
print('scaled transport', val([sc, mk(), sell()]), ' base', val([tr(s/S), mk(), sell()]) - s*fc*T)
sc = eao.assets.ScaledAsset(name='sc', base_asset=tr(1), min_scale=0, max_scale=5, norm_scale=S, fix_costs=fc)
print('free scale', val([sc, mk(), sell()]), ' grid max', max(val([tr(k/S), mk(), sell()]) - k*fc*T for k in np.linspace(0,5,21)))
# window of scaled asset different from base
sc = eao.assets.ScaledAsset(name='sc', base_asset=tr(1), min_scale=s, max_scale=s, norm_scale=S, fix_costs=fc, start=dt.datetime(2021,1,1,2), end=dt.datetime(2021,1,1,5))
print('scaled w/ own window', val([sc, mk(), sell()]), ' base full', val([tr(s/S), mk(), sell()]), 'fix', s*fc*3, s*fc*T)
print("=== C16 structured flatten")
st = base(1); t1 = tr(1)
flat = val([st, t1, mk(), sell()])
inner = eao.portfolio.Portfolio([base(1), tr(1)])
sa = eao.portfolio.StructuredAsset(name='sa', nodes=[node, n2], portfolio=inner)
print('flat', flat, 'struct', val([sa, mk(), sell()]))
inner = eao.portfolio.Portfolio([base(1), tr(1), eao.assets.SimpleContract(name='sell', nodes=n2, min_cap=-10, max_cap=0, price='q')])
sa = eao.portfolio.StructuredAsset(name='sa', nodes=[node], portfolio=inner)
print('flat', flat, 'struct internal node', val([sa, mk()]))
