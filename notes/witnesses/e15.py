import sys; sys.path.insert(0,'/repo')
import numpy as np, pandas as pd, datetime as dt, io, contextlib, copy
import eaopack as eao
node = eao.assets.Node('N'); n2 = eao.assets.Node('M')
def solve(op, **kw):
    with contextlib.redirect_stdout(io.StringIO()):
        return op.optimize(**kw)
print("=== C12 unit change h -> d")
def build(unit):
    k = {'h':1., 'd':24., 'min':1/60.}[unit]   # one unit = k hours ; rate per unit = rate_per_hour * k
    tg = eao.assets.Timegrid(dt.date(2021,1,1), dt.date(2021,1,3), freq='4h', main_time_unit=unit)
    T = tg.T
    pr = {'p': np.sin(np.arange(T))+2}
    st = eao.assets.Storage('st', nodes=node, size=8, cap_in=1*k, cap_out=2*k, start_level=1, end_level=2, inflow=0.125*k, eff_in=0.5, cost_store=0.01*k, cost_in=0.25, wacc=0.1)
    mk = eao.assets.SimpleContract(name='mk', nodes=node, min_cap=-3*k, max_cap=3*k, price='p', extra_costs=0.125, wacc=0.1)
    c = eao.assets.Contract(name='c', nodes=node, min_cap=0, max_cap=1*k, price='p', min_take={'start':dt.datetime(2021,1,1,8),'end':dt.datetime(2021,1,2,8),'values':5.}, wacc=0.05)
    p = eao.portfolio.Portfolio([st,mk,c]); op = p.setup_optim_problem(pr, tg); return op
ops = {u: build(u) for u in ('h','d','min')}
for u in ops:
    r = solve(ops[u]); print(u, 'value', round(r.value,6), 'max|c-c_h|', np.abs(ops[u].c-ops['h'].c).max(), 'max|u-u_h|', np.abs(ops[u].u-ops['h'].u).max(), 'max|b-b_h|', np.abs(ops[u].b-ops['h'].b).max())
print("=== C08 take prorating partly outside horizon")
tg = eao.assets.Timegrid(dt.date(2021,1,1), dt.date(2021,1,2), freq='4h')
pr = {'p': np.ones(tg.T)}
c = eao.assets.Contract(name='c', nodes=node, min_cap=0, max_cap=10, price='p', min_take={'start':dt.datetime(2020,12,31,12),'end':dt.datetime(2021,1,1,12),'values':24.}, max_take={'start':[dt.datetime(2021,1,1,20), dt.datetime(2021,2,1)],'end':[dt.datetime(2021,1,2,4), dt.datetime(2021,2,2)],'values':[16., 1.]})
op = c.setup_optim_problem(pr, tg); print(op.A.toarray(), op.b, op.cType)
print("=== C17 SLP / robust bounds with differing samples")
tg = eao.assets.Timegrid(dt.date(2021,1,1), dt.datetime(2021,1,1,6), freq='h'); T=tg.T
rng = np.random.default_rng(1)
base = np.array([3.,1,4,1,5,9])
samples = [{'p': np.r_[base[:2], rng.uniform(0,10,4)]} for _ in range(3)]
st = lambda: eao.assets.Storage('st', nodes=node, size=3, cap_in=1, cap_out=1, start_level=0, end_level=0)
mk = lambda: eao.assets.SimpleContract(name='mk', nodes=node, min_cap=-3, max_cap=3, price='p')
p = eao.portfolio.Portfolio([st(), mk()])
allS = [{'p':base}] + samples
opts = [solve(p.setup_optim_problem(s, tg)) for s in allS]
print('per-scenario optima', [round(r.value,4) for r in opts], 'mean', np.mean([r.value for r in opts]))
op = p.setup_optim_problem({'p':base}, tg)
slp = eao.stoch_lin_prog.make_slp(op, p, tg, dt.datetime(2021,1,1,2), copy.deepcopy(samples))
r = solve(slp); print('SLP value', round(r.value,4))
# EEV: fix present to scenario-0 solution and evaluate each scenario
vals=[]
for s in allS:
    opf = p.setup_optim_problem(s, tg, fix_time_window={'I':np.array([True,True]+[False]*4), 'x':opts[0].x.copy()})
    rr = solve(opf); vals.append(rr.value if not isinstance(rr,str) else None)
print('EEV (fix present to scenario 0)', vals, np.mean(vals))
cs = p.create_cost_samples(allS, tg)
op = p.setup_optim_problem({'p':base}, tg)
rr = solve(op, target='robust', samples=cs); x=rr.x
print('robust value', rr.value, 'worst-case of robust x', min(-c@x for c in cs), 'worst-case of single-scenario sols', [round(min(-c@o.x for c in cs),4) for o in opts], 'min scenario opt', min(o.value for o in opts))
