import sys; sys.path.insert(0, sys.argv[1])
import numpy as np, pandas as pd, datetime as dt, io, contextlib, scipy.sparse as sp
import eaopack as eao
A = eao.assets
def quiet(f,*a,**k):
    with contextlib.redirect_stdout(io.StringIO()):
        return f(*a,**k)
n1=A.Node('n1'); n2=A.Node('n2')
tg = A.Timegrid(dt.datetime(2021,1,1), dt.datetime(2021,1,1,12), freq='h'); T=tg.T
rng=np.random.default_rng(0)
pr={'p':np.round(rng.uniform(0,10,T)*8)/8,'q':np.round(rng.uniform(0,10,T)*8)/8,'c':np.round(rng.uniform(0,2,T)*8)/8}
def others(): return [A.SimpleContract(name='m1',nodes=n1,price='p',min_cap=-20,max_cap=20), A.SimpleContract(name='m2',nodes=n2,price='q',min_cap=-20,max_cap=20)]
def value_with_eq(asset_fine, groups):
    p = eao.portfolio.Portfolio([asset_fine]+others()); op = quiet(p.setup_optim_problem, pr, tg)
    m = op.mapping[(op.mapping.asset==asset_fine.name)]
    m = m[~m.index.duplicated(keep='first')]
    rows=[]
    for vn in m.var_name.unique():
        mm = m[m.var_name==vn]
        for g in groups:
            idx = [mm.index[mm.time_step==t][0] for t in g if (mm.time_step==t).any()]
            for a,b in zip(idx[:-1],idx[1:]):
                r = sp.lil_matrix((1,len(op.c))); r[0,a]=1; r[0,b]=-1; rows.append(r)
    if rows:
        op.A = sp.vstack([op.A]+rows); op.b = np.hstack([op.b, np.zeros(len(rows))]); op.cType += 'S'*len(rows)
    r = quiet(op.optimize); return r if isinstance(r,str) else r.value
def value(asset):
    p = eao.portfolio.Portfolio([asset]+others()); op = quiet(p.setup_optim_problem, pr, tg); r = quiet(op.optimize); return r if isinstance(r,str) else r.value
coarse_groups = [list(range(i,i+3)) for i in range(0,T,3)]
per_groups = [list(range(i,T,4)) for i in range(4)]
mk = {
 'contract1': lambda **k: A.SimpleContract(name='a',nodes=n1,price='q',min_cap=-2,max_cap=3,**k),
 'contract2': lambda **k: A.SimpleContract(name='a',nodes=n1,price='q',min_cap=-2,max_cap=3,extra_costs=0.25,**k),
 'transport': lambda **k: A.Transport(name='a',nodes=[n1,n2],min_cap=0,max_cap=3,efficiency=0.5,costs_time_series='c',costs_const=0.125,**k),
 'storage1': lambda **k: A.Storage('a',nodes=n1,size=6,cap_in=1,cap_out=2,start_level=1,end_level=1,**k),
 'storage2': lambda **k: A.Storage('a',nodes=n1,size=6,cap_in=1,cap_out=2,start_level=1,end_level=1,eff_in=0.5,cost_in=0.125,**k),
 'multicom': lambda **k: A.MultiCommodityContract(name='a',nodes=[n1,n2],price='c',min_cap=0,max_cap=3,factors_commodities=[1,-0.5],**k),
}
for name,f in mk.items():
    for label,kw,groups in (('coarse 3h',dict(freq='3h'),coarse_groups),('periodic 4h',dict(periodicity='4h'),per_groups)):
        try:
            v1 = value(f(**kw)); v2 = value_with_eq(f(), groups)
            print(f'{name:10s} {label:12s} merged {v1 if isinstance(v1,str) else round(v1,5)}  fine+eq {v2 if isinstance(v2,str) else round(v2,5)}', '' if isinstance(v1,str) or isinstance(v2,str) or abs(v1-v2)<1e-4 else '  <<< DIFF')
        except Exception as e:
            print(f'{name:10s} {label:12s} EXC {type(e).__name__} {str(e)[:80]}')
