import sys; sys.path.insert(0,'/repo')
import numpy as np, pandas as pd, datetime as dt
import eaopack as eao
np.set_printoptions(linewidth=200, precision=4, suppress=True)
print("=== 2. key collision with numeric names")
node = eao.assets.Node('N')
tg = eao.assets.Timegrid(dt.date(2021,1,1), dt.datetime(2021,1,1,12), freq='h')
T=tg.T
prices={'p':np.arange(1.,T+1), 'q': -np.arange(1.,T+1)}
a = eao.assets.SimpleContract(name='1A', nodes=node, price='p', min_cap=-1, max_cap=1)
b = eao.assets.SimpleContract(name='A', nodes=node, price='q', min_cap=-2, max_cap=2)
p = eao.portfolio.Portfolio([a,b]); op=p.setup_optim_problem(prices,tg)
print('nvars', len(op.c), 'unique idx', len(op.mapping.index.unique()), 'A', op.A.shape)
print(op.mapping[op.mapping.index.duplicated(keep=False)])
a = eao.assets.SimpleContract(name='X', nodes=node, price='p', min_cap=-1, max_cap=1)
b = eao.assets.SimpleContract(name='Y', nodes=node, price='q', min_cap=-2, max_cap=2)
p2 = eao.portfolio.Portfolio([a,b]); op2=p2.setup_optim_problem(prices,tg)
r1=op.optimize(); r2=op2.optimize()
print('value numeric names', r1 if isinstance(r1,str) else r1.value, ' value XY', r2.value)
