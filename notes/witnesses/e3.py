import sys; sys.path.insert(0,'/repo')
import numpy as np, pandas as pd, datetime as dt
import eaopack as eao
np.set_printoptions(linewidth=200, precision=4, suppress=True)
print("=== 3. periodic stand-alone with duration: mapping index vs len(c)")
node = eao.assets.Node('N')
tg = eao.assets.Timegrid(dt.date(2021,1,1), dt.date(2021,1,5), freq='6h')
T=tg.T
prices={'p':np.sin(np.arange(T))}
a = eao.assets.SimpleContract(name='a', nodes=node, price='p', min_cap=-1, max_cap=1, periodicity='d', periodicity_duration='2d')
op = a.setup_optim_problem(prices, tg)
print('len c', len(op.c), 'mapping idx unique', sorted(op.mapping.index.unique()))
res = op.optimize()
try:
    print(a.dcf(op,res).sum(), res.value)
except Exception as e: print('dcf failed', repr(e))
print("=== 15. periodic transport with costs: double counting?")
n1=eao.assets.Node('n1'); n2=eao.assets.Node('n2')
tg = eao.assets.Timegrid(dt.date(2021,1,1), dt.date(2021,1,3), freq='12h')
T=tg.T
prices={'c':np.array([1.,2.,3.,4.]), 'p1':np.zeros(T), 'p2':np.array([10.,10,10,10])}
tr = eao.assets.Transport(name='tr', nodes=[n1,n2], min_cap=0, max_cap=1, costs_time_series='c', periodicity='d')
op = tr.setup_optim_problem(prices, tg)
print('c', op.c, 'l',op.l,'u',op.u); print(op.mapping)
tr2 = eao.assets.Transport(name='tr', nodes=[n1,n2], min_cap=0, max_cap=1, costs_time_series='c')
op2 = tr2.setup_optim_problem(prices, tg); print('nonperiodic c', op2.c)
