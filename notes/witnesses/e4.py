import sys; sys.path.insert(0,'/repo')
import numpy as np, pandas as pd, datetime as dt
import eaopack as eao
np.set_printoptions(linewidth=200, precision=4, suppress=True)
print("=== 3/4. storage fill level with inflow; charge/discharge with stale node")
n1=eao.assets.Node('n1'); n2=eao.assets.Node('n2')
tg = eao.assets.Timegrid(dt.date(2021,1,1), dt.datetime(2021,1,1,6), freq='h')
T=tg.T
prices={'p':np.array([1.,5,1,5,1,5]), 'z':np.zeros(T)}
st = eao.assets.Storage('st', nodes=n1, size=10, cap_in=2, cap_out=2, start_level=1, end_level=3, inflow=0.5, eff_in=0.5, price=None)
mk = eao.assets.SimpleContract(name='mk', nodes=n1, price='p', min_cap=-10, max_cap=10)
other = eao.assets.SimpleContract(name='other', nodes=n2, price='z', min_cap=0, max_cap=0)
for assets in ([st,mk],[st,mk,other]):
    p = eao.portfolio.Portfolio(assets); op=p.setup_optim_problem(prices,tg); res=op.optimize()
    out = eao.io.extract_output(p,op,res,prices)
    print(out['internal_variables'].round(3).to_string())
    m = op.mapping[op.mapping.asset=='st']
    xin = res.x[m.index[m.var_name=='disp_in']]; xout=res.x[m.index[m.var_name=='disp_out']]
    phys = 1 + np.cumsum(-0.5*xin - xout + 0.5*tg.dt)
    print('physical level', phys.round(3), 'disp', out['dispatch'].round(3).to_string())
print("=== 5. blocks + inflow")
tg = eao.assets.Timegrid(dt.date(2021,1,1), dt.date(2021,1,3), freq='6h')
T=tg.T; prices={'p':np.tile([1.,5,1,5],2)}
st = eao.assets.Storage('st', nodes=n1, size=10, cap_in=2, cap_out=2, start_level=1, end_level=1, inflow=0.1, block_size='d')
op = st.setup_optim_problem(prices,tg)
print(op.A.toarray()); print(op.b, op.cType)
