import sys; sys.path.insert(0,'/repo')
import numpy as np, pandas as pd, datetime as dt, traceback
import eaopack as eao
np.set_printoptions(linewidth=200, precision=4, suppress=True)
def tryit(label, f):
    try:
        r = f(); print(label, '->', r)
    except Exception as e:
        print(label, 'EXC', type(e).__name__, str(e)[:150])
node = eao.assets.Node('N'); n2=eao.assets.Node('M')
print("=== 6. values_to_grid mutation / tz switching")
mc = {'start':[dt.datetime(2021,1,1), dt.datetime(2021,1,1,3)], 'values':[1.,2.]}
a = eao.assets.SimpleContract(name='a', nodes=node, price='p', min_cap=-1., max_cap=mc)
tg1 = eao.assets.Timegrid(dt.date(2021,1,1), dt.datetime(2021,1,1,6), freq='h', timezone='CET')
tg2 = eao.assets.Timegrid(dt.date(2021,1,1), dt.datetime(2021,1,1,6), freq='h')
pr = {'p':np.ones(6)}
tryit('naive grid first', lambda: a.setup_optim_problem(pr, tg2).u)
print('dict now', {k:type(v).__name__ for k,v in mc.items()}, mc.get('end'))
tryit('tz grid', lambda: a.setup_optim_problem(pr, tg1).u)
print('dict now', {k:type(v).__name__ for k,v in mc.items()})
tryit('naive grid again', lambda: a.setup_optim_problem(pr, tg2).u)
print("=== 8. stale restricted grid")
a1 = eao.assets.SimpleContract(name='a1', nodes=node, price='p', min_cap=-1., max_cap=1, start=dt.datetime(2021,1,1,2))
a2 = eao.assets.SimpleContract(name='a2', nodes=node, price='p', min_cap=-1., max_cap=1, end=dt.datetime(2021,1,1,1))
tg = eao.assets.Timegrid(dt.date(2021,1,1), dt.datetime(2021,1,1,6), freq='h')
a1.set_timegrid(tg); a2.set_timegrid(tg)
st = eao.assets.Storage('st', nodes=node, size=1, cap_in=1, cap_out=1, start=dt.datetime(2021,1,1,2))
st.set_timegrid(tg); a2.set_timegrid(tg)
tryit('storage setup w/o timegrid after other asset set grid: n vars', lambda: len(st.setup_optim_problem(pr).c))
tryit('fresh', lambda: len(eao.assets.Storage('st', nodes=node, size=1, cap_in=1, cap_out=1, start=dt.datetime(2021,1,1,2)).setup_optim_problem(pr, tg).c))
print("=== 12. fix_time_window with transport")
tr = eao.assets.Transport(name='tr', nodes=[node,n2], min_cap=0, max_cap=1)
b1 = eao.assets.SimpleContract(name='b1', nodes=node, price='p', min_cap=-1., max_cap=1)
b2 = eao.assets.SimpleContract(name='b2', nodes=n2, price='q', min_cap=-1., max_cap=1)
pr2 = {'p':np.ones(6), 'q':np.arange(6.)}
p = eao.portfolio.Portfolio([tr,b1,b2]); op = p.setup_optim_problem(pr2, tg); res = op.optimize()
def fx():
    op2 = p.setup_optim_problem(pr2, tg, fix_time_window={'I':np.array([True,True,True,False,False,False]), 'x':res.x})
    return (op2.l==op2.u).sum()
tryit('fix window transport', fx)
p = eao.portfolio.Portfolio([b1,b2][:1]); op = p.setup_optim_problem(pr2, tg); res = op.optimize()
def fx2():
    op2 = p.setup_optim_problem(pr2, tg, fix_time_window={'I':np.array([True,True,True,False,False,False]), 'x':res.x})
    return (op2.l==op2.u).sum()
tryit('fix window simple', fx2)
def fx3():
    op2 = p.setup_optim_problem(pr2, tg, fix_time_window={'I':dt.datetime(2021,1,1,2), 'x':res.x})
    return (op2.l==op2.u).sum()
tryit('fix window by date', fx3)
