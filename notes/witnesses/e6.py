import sys; sys.path.insert(0,'/repo')
import numpy as np, pandas as pd, datetime as dt, traceback
import eaopack as eao
np.set_printoptions(linewidth=200, precision=5, suppress=True)
def tryit(label, f):
    try:
        r = f(); print(label, '->', r)
    except Exception as e:
        print(label, 'EXC', type(e).__name__, str(e)[:200])
node = eao.assets.Node('N'); n2=eao.assets.Node('M')
S = eao.serialization
print("=== 11. serialization")
tgz = eao.assets.Timegrid(dt.date(2021,1,1), dt.datetime(2021,1,1,6), freq='h', timezone='CET')
mc = {'start':[dt.datetime(2021,1,1), dt.datetime(2021,1,1,3)], 'end':[dt.datetime(2021,1,1,3), dt.datetime(2021,1,1,6)], 'values':[1.,2.]}
a = eao.assets.SimpleContract(name='a', nodes=node, price='p', min_cap=-1., max_cap=mc)
p = eao.portfolio.Portfolio([a]); p.set_timegrid(tgz)
pr = {'p':np.ones(6)}
tryit('orig tz portfolio', lambda: p.setup_optim_problem(pr).u)
s = S.to_json(p)
def f():
    q = S.load_from_json(s); print('   loaded tz', q.timegrid.tz, q.timegrid.timepoints[0])
    return q.setup_optim_problem(pr).u
tryit('loaded tz portfolio (fresh dict)', f)
# scaled asset
sc = eao.assets.ScaledAsset(name='sc', base_asset=eao.assets.Storage('st', nodes=node, size=1, cap_in=1, cap_out=1), max_scale=2, fix_costs=1)
tryit('scaled roundtrip', lambda: type(S.load_from_json(S.to_json(sc))).__name__)
chp = eao.assets.CHPAsset(name='chp', nodes=[node,n2], price='p', min_cap=1, max_cap=2, min_runtime=2, start_costs=1.)
tryit('chp roundtrip before setup', lambda: type(S.load_from_json(S.to_json(chp))).__name__)
tg = eao.assets.Timegrid(dt.date(2021,1,1), dt.datetime(2021,1,1,6), freq='h')
chp.setup_optim_problem(pr, tg)
tryit('chp roundtrip after setup', lambda: type(S.load_from_json(S.to_json(chp))).__name__)
pl = eao.assets.Plant(name='pl', nodes=[node], price='p', min_cap=1, max_cap=2, min_runtime=2, start_costs=1.)
pl.setup_optim_problem(pr, tg)
tryit('plant roundtrip after setup', lambda: type(S.load_from_json(S.to_json(pl))).__name__)
b1 = eao.assets.SimpleContract(name='b1', nodes=node, price='p', min_cap=-1., max_cap=1)
sa = eao.portfolio.StructuredAsset(name='sa', nodes=node, portfolio=eao.portfolio.Portfolio([b1]))
tryit('structured roundtrip', lambda: type(S.load_from_json(S.to_json(sa))).__name__)
pl2 = eao.assets.Plant(name='pl2', nodes=[node], price='p', min_cap=1, max_cap=2, min_runtime=2, start_costs=1.)
la = eao.portfolio.LinkedAsset(name='la', nodes=node, portfolio=eao.portfolio.Portfolio([b1, pl2]), asset1_variable=(b1,'disp',node), asset2_variable=(pl2,'bool_on',None))
tryit('linked roundtrip', lambda: type(S.load_from_json(S.to_json(la))).__name__)
ob = eao.assets.OrderBook('OB', node, orders={'start':[pd.Timestamp(2021,1,1)],'end':[pd.Timestamp(2021,1,2)],'capa':[1.],'price':[1.]})
tryit('orderbook roundtrip', lambda: S.load_from_json(S.to_json(ob)).orders)
tryit('orderbook same json', lambda: S.to_json(S.load_from_json(S.to_json(ob)))==S.to_json(ob))
st = eao.assets.Storage('st', nodes=node, size=1, cap_in=1, cap_out=1, block_size='d')
tryit('storage roundtrip', lambda: S.to_json(S.load_from_json(S.to_json(st)))==S.to_json(st))
c2 = eao.assets.Contract(name='c2', nodes=node, price='p', min_cap=np.array([1.,2,3,4,5,6])*-1, max_cap=1., min_take={'start':dt.datetime(2021,1,1),'end':dt.datetime(2021,1,2),'values':-3})
tryit('contract np roundtrip', lambda: S.to_json(S.load_from_json(S.to_json(c2)))==S.to_json(c2))
tryit('contract np setup', lambda: c2.setup_optim_problem(pr, tg).l)
tryit('contract np loaded setup', lambda: S.load_from_json(S.to_json(c2)).setup_optim_problem(pr, tg).l)
