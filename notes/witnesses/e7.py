import sys; sys.path.insert(0,'/repo')
import numpy as np, pandas as pd, datetime as dt, traceback
import eaopack as eao
np.set_printoptions(linewidth=200, precision=6, suppress=True)
def tryit(label, f):
    try:
        r = f(); print(label, '->', r)
    except Exception as e:
        print(label, 'EXC', type(e).__name__, str(e)[:200])
node = eao.assets.Node('N'); n2=eao.assets.Node('M')
print("=== 13. split with main_time_unit d and wacc")
tg = eao.assets.Timegrid(dt.date(2021,1,1), dt.date(2021,1,21), freq='d', main_time_unit='d')
T=tg.T
pr = {'p':np.ones(T)*100}
a = eao.assets.SimpleContract(name='a', nodes=node, price='p', min_cap=0., max_cap=1, wacc=0.5)
p = eao.portfolio.Portfolio([a])
v1 = p.setup_optim_problem(pr, tg).optimize().value
ops = p.setup_split_optim_problem(pr, tg, interval_size='5d')
v2 = ops.optimize().value
print('unsplit', v1, 'split', v2)
print("=== 16. minor grid weights with non-uniform minor steps (daily grid CET across DST, weekly asset)")
tg = eao.assets.Timegrid(dt.date(2021,3,21), dt.date(2021,4,4), freq='d', main_time_unit='h', timezone='CET')
print('dt', tg.dt)
a = eao.assets.SimpleContract(name='a', nodes=node, price='p', min_cap=0., max_cap=1, freq='7d')
pr = {'p':np.ones(tg.T)}
op = a.setup_optim_problem(pr, tg)
print('u', op.u)
print(op.mapping[['time_step','disp_factor']].T.to_string())
print('sum weights per var', op.mapping.groupby(level=0).disp_factor.sum().values)
print("=== 17. anchored freq grid start")
tg = eao.assets.Timegrid(dt.date(2021,1,15), dt.date(2021,4,1), freq='MS', main_time_unit='d')
print(tg.start, tg.timepoints, tg.dt)
tg = eao.assets.Timegrid(dt.datetime(2021,1,1,0,30), dt.datetime(2021,1,1,3,45), freq='h')
print(tg.start, tg.end, tg.timepoints, tg.dt)
print("=== 18. coarse grid straddling / partial")
tg = eao.assets.Timegrid(dt.date(2021,1,1), dt.datetime(2021,1,1,5), freq='h')
a = eao.assets.SimpleContract(name='a', nodes=node, price='p', min_cap=0., max_cap=1, freq='2h')
pr = {'p':np.ones(tg.T)}
op = a.setup_optim_problem(pr, tg); print('partial tail: steps covered', sorted(op.mapping.time_step.unique()), 'of', tg.T)
a = eao.assets.SimpleContract(name='a', nodes=node, price='p', min_cap=0., max_cap=1, freq='2h', start=dt.datetime(2020,12,31,22))
tryit('straddling start coarse', lambda: sorted(a.setup_optim_problem(pr, tg).mapping.time_step.unique()))
a = eao.assets.SimpleContract(name='a', nodes=node, price='p', min_cap=0., max_cap=1, freq='2h', start=dt.datetime(2021,1,1,1))
tryit('offset start coarse', lambda: a.setup_optim_problem(pr, tg).mapping[['time_step','disp_factor']].values.tolist())
a = eao.assets.SimpleContract(name='a', nodes=node, price='p', min_cap=0., max_cap=1, start=dt.datetime(2021,2,1,1))
tryit('window after horizon', lambda: len(a.setup_optim_problem(pr, tg).c))
p = eao.portfolio.Portfolio([a, eao.assets.SimpleContract(name='b', nodes=node, price='p', min_cap=-1., max_cap=1)])
tryit('portfolio with asset after horizon', lambda: p.setup_optim_problem(pr, tg).optimize().value)
st = eao.assets.Storage('st', nodes=node, size=1, cap_in=1, cap_out=1, start=dt.datetime(2021,2,1,1))
p = eao.portfolio.Portfolio([st, eao.assets.SimpleContract(name='b', nodes=node, price='p', min_cap=-1., max_cap=1)])
tryit('portfolio with storage after horizon', lambda: p.setup_optim_problem(pr, tg).optimize().value)
tr = eao.assets.Transport(name='tr', nodes=[node,n2], min_cap=0, max_cap=1, start=dt.datetime(2021,2,1,1))
p = eao.portfolio.Portfolio([tr, eao.assets.SimpleContract(name='b', nodes=node, price='p', min_cap=-1., max_cap=1)])
tryit('portfolio with transport after horizon', lambda: p.setup_optim_problem(pr, tg).optimize().value)
c = eao.assets.Contract(name='c', nodes=node, price='p', min_cap=-1., max_cap=1, start=dt.datetime(2021,2,1,1), min_take={'start':dt.datetime(2021,1,1),'end':dt.datetime(2021,1,2),'values':-3})
p = eao.portfolio.Portfolio([c, eao.assets.SimpleContract(name='b', nodes=node, price='p', min_cap=-1., max_cap=1)])
tryit('portfolio with contract after horizon', lambda: p.setup_optim_problem(pr, tg).optimize().value)
