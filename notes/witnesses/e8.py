import sys; sys.path.insert(0,'/repo')
import numpy as np, pandas as pd, datetime as dt, traceback
import eaopack as eao
np.set_printoptions(linewidth=200, precision=6, suppress=True)
def tryit(label, f):
    try:
        r = f(); print(label, '->', r)
    except Exception as e:
        print(label, 'EXC', type(e).__name__, str(e)[:200])
node = eao.assets.Node('N'); n2=eao.assets.Node('M')
print("=== 13. split with main_time_unit d and wacc")
tg = eao.assets.Timegrid(dt.date(2021,1,1), dt.date(2021,1,21), freq='d', main_time_unit='d')
T=tg.T
pr = {'p':-np.ones(T)*100}
a = eao.assets.SimpleContract(name='a', nodes=node, price='p', min_cap=0., max_cap=1, wacc=0.5)
p = eao.portfolio.Portfolio([a])
v1 = p.setup_optim_problem(pr, tg).optimize().value
ops = p.setup_split_optim_problem(pr, tg, interval_size='5d')
v2 = ops.optimize().value
print('unsplit', v1, 'split', v2)
tg = eao.assets.Timegrid(dt.date(2021,1,1), dt.date(2021,1,21), freq='d', main_time_unit='h')
v1 = p.setup_optim_problem(pr, tg).optimize().value
v2 = p.setup_split_optim_problem(pr, tg, interval_size='5d').optimize().value
print('main unit h: unsplit', v1, 'split', v2)
print("=== 7. structured clipping")
tg = eao.assets.Timegrid(dt.date(2021,1,1), dt.datetime(2021,1,1,6), freq='h')
pr = {'p':-np.ones(6)}
b1 = eao.assets.SimpleContract(name='b1', nodes=node, price='p', min_cap=0., max_cap=1, start=dt.datetime(2021,1,1,0), end=dt.datetime(2021,1,1,6))
inner = eao.portfolio.Portfolio([b1])
sa = eao.portfolio.StructuredAsset(name='sa', nodes=node, portfolio=inner, start=dt.datetime(2021,1,1,2), end=dt.datetime(2021,1,1,4))
print('inner alone before', len(inner.setup_optim_problem(pr,tg).c))
print('struct', len(sa.setup_optim_problem(pr,tg).c))
print('inner alone after ', len(inner.setup_optim_problem(pr,tg).c), b1.start, b1.end)
print("=== 10. SLP with transport")
tg = eao.assets.Timegrid(dt.date(2021,1,1), dt.datetime(2021,1,1,4), freq='h')
T = tg.T
tr = eao.assets.Transport(name='tr', nodes=[node,n2], min_cap=0, max_cap=1)
s1 = eao.assets.SimpleContract(name='s1', nodes=node, price='p', min_cap=-1., max_cap=1)
s2 = eao.assets.SimpleContract(name='s2', nodes=n2, price='q', min_cap=-1., max_cap=1)
pr = {'p':np.ones(T), 'q':np.array([1.,2,3,4])}
for assets in ([s1,s2,tr],[tr,s1,s2]):
    p = eao.portfolio.Portfolio(assets)
    op = p.setup_optim_problem(pr, tg); det = op.optimize().value
    op = p.setup_optim_problem(pr, tg)
    def f():
        slp = eao.stoch_lin_prog.make_slp(op, p, tg, dt.datetime(2021,1,1,2), [pr, pr])
        r = slp.optimize()
        return r if isinstance(r,str) else r.value
    print('det', det); tryit('slp identical samples '+str([a.name for a in assets]), f)
st = eao.assets.Storage('st', nodes=node, size=2, cap_in=1, cap_out=1)
p = eao.portfolio.Portfolio([s1, st]); op = p.setup_optim_problem({'p':np.array([1.,2,3,4])}, tg); det=op.optimize().value
op = p.setup_optim_problem({'p':np.array([1.,2,3,4])}, tg)
slp = eao.stoch_lin_prog.make_slp(op, p, tg, dt.datetime(2021,1,1,2), [{'p':np.array([1.,2,3,4])}]*2); print('det',det,'slp storage', slp.optimize().value)
