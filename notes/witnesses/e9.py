import sys; sys.path.insert(0,'/repo')
import numpy as np, pandas as pd, datetime as dt
import eaopack as eao
node = eao.assets.Node('N')
for mtu in ('d','h'):
    tg = eao.assets.Timegrid(dt.date(2021,1,1), dt.date(2021,1,21), freq='d', main_time_unit=mtu)
    T=tg.T
    pr = {'p':-np.ones(T)*100}
    a = eao.assets.SimpleContract(name='a', nodes=node, price='p', min_cap=0., max_cap=1, wacc=0.5)
    b = eao.assets.SimpleContract(name='b', nodes=node, price='z', min_cap=-100., max_cap=100)
    pr['z']=np.zeros(T)
    p = eao.portfolio.Portfolio([a,b])
    op = p.setup_optim_problem(pr, tg)
    v1 = op.optimize().value
    ops = p.setup_split_optim_problem(pr, tg, interval_size='5d')
    v2 = ops.optimize().value
    print(mtu, 'unsplit', v1, 'split', v2, 'c first/last', op.c[0], op.c[T-1], 'split c first/last', ops.c[0], ops.c[-T-1])
