import sys; sys.path.insert(0, sys.argv[1])
import numpy as np, pandas as pd, datetime as dt, io, contextlib, traceback
import eaopack as eao
A = eao.assets
def quiet(f,*a,**k):
    with contextlib.redirect_stdout(io.StringIO()):
        return f(*a,**k)
def gen(rng):
    nn = rng.integers(1,4); nodes=[A.Node('n%d'%i) for i in range(nn)]
    T = int(rng.integers(3,13)); freq = str(rng.choice(['h','2h','30min']))
    start = dt.datetime(2021,3,27,int(rng.integers(0,20))) if rng.random()<0.3 else dt.datetime(2021,1,int(rng.integers(1,20)),int(rng.integers(0,24)))
    tz = [None,'CET'][int(rng.integers(0,2))]
    end = pd.Timestamp(start)+T*pd.Timedelta(pd.tseries.frequencies.to_offset(freq))
    tg = A.Timegrid(start,end,freq=freq,main_time_unit=str(rng.choice(['h','d'])),timezone=tz)
    T = tg.T
    prices = {'p%d'%i: np.round(rng.uniform(-2,10,T)*8)/8 for i in range(3)}
    def win():
        if rng.random()<0.6: return {}
        a,b = sorted(rng.integers(-2,T+3,2)); 
        if a==b: b+=1
        return dict(start=pd.Timestamp(start)+int(a)*pd.Timedelta(pd.tseries.frequencies.to_offset(freq)), end=pd.Timestamp(start)+int(b)*pd.Timedelta(pd.tseries.frequencies.to_offset(freq)))
    assets=[]; k=0
    # one flexible market per node to keep feasible
    for n in nodes:
        assets.append(A.SimpleContract(name='mk_'+n.name, nodes=n, price='p%d'%rng.integers(0,3), min_cap=-50, max_cap=50, extra_costs=float(rng.choice([0,0.125])), wacc=float(rng.choice([0,0.1])))); 
    for _ in range(int(rng.integers(1,5))):
        k+=1; kind = rng.choice(['sc','st','tr','mc','ob','ct'])
        n = nodes[rng.integers(0,nn)]
        if kind=='sc':
            assets.append(A.SimpleContract(name='a%d'%k, nodes=n, price='p%d'%rng.integers(0,3), min_cap=-float(rng.integers(0,4)), max_cap=float(rng.integers(0,4)), extra_costs=float(rng.choice([0,0.25])), wacc=float(rng.choice([0,0.05])), **win()))
        elif kind=='ct':
            s0 = pd.Timestamp(start)+int(rng.integers(-3,T))*pd.Timedelta(pd.tseries.frequencies.to_offset(freq)); e0 = s0+int(rng.integers(1,T+3))*pd.Timedelta(pd.tseries.frequencies.to_offset(freq))
            assets.append(A.Contract(name='a%d'%k, nodes=n, price='p%d'%rng.integers(0,3), min_cap=0., max_cap=float(rng.integers(1,4)), max_take={'start':[s0.to_pydatetime()],'end':[e0.to_pydatetime()],'values':[float(rng.integers(0,5))]}, **win()))
        elif kind=='st':
            two = nn>1 and rng.random()<0.3
            nds = [n, nodes[(nodes.index(n)+1)%nn]] if two else n
            sz=float(rng.integers(2,8)); sl=float(rng.integers(0,2)); 
            assets.append(A.Storage('a%d'%k, nodes=nds, size=sz, cap_in=float(rng.integers(1,3)), cap_out=float(rng.integers(1,3)), start_level=sl, end_level=sl, eff_in=float(rng.choice([1,0.5])), cost_in=float(rng.choice([0,0.125])), cost_store=float(rng.choice([0,0.0625])), inflow=float(rng.choice([0,0,0.125])), **win()))
        elif kind=='tr' and nn>1:
            n2 = nodes[(nodes.index(n)+1)%nn]
            assets.append(A.Transport(name='a%d'%k, nodes=[n,n2], min_cap=0., max_cap=float(rng.integers(1,4)), efficiency=float(rng.choice([1,0.5,0.75])), costs_const=float(rng.choice([0,0.25])), **win()))
        elif kind=='mc' and nn>1:
            n2 = nodes[(nodes.index(n)+1)%nn]
            assets.append(A.MultiCommodityContract(name='a%d'%k, nodes=[n,n2], price='p0', min_cap=0., max_cap=float(rng.integers(1,4)), factors_commodities=[1,float(rng.choice([0.5,-2,1]))], **win()))
        elif kind=='ob':
            no = int(rng.integers(1,4)); ss=[];ee=[]
            for _ in range(no):
                a_,b_ = sorted(rng.integers(0,T+1,2)); 
                if a_==b_: 
                    if b_<T: b_+=1
                    else: a_-=1
                ss.append(tg.timepoints[a_] if a_<T else tg.end); ee.append(tg.timepoints[b_] if b_<T else tg.end)
            assets.append(A.OrderBook('a%d'%k, n, orders={'start':ss,'end':ee,'capa':[float(rng.choice([-2,-1,1,2])) for _ in range(no)],'price':[float(rng.integers(0,10)) for _ in range(no)]}))
    return nodes, tg, prices, assets
bad=0
for seed in range(int(sys.argv[2]), int(sys.argv[3])):
    rng = np.random.default_rng(seed)
    try:
        nodes,tg,prices,assets = gen(rng)
        p = eao.portfolio.Portfolio(assets)
        op = quiet(p.setup_optim_problem, prices, tg); res = quiet(op.optimize)
        if isinstance(res,str): print(seed,'status',res); continue
        out = quiet(eao.io.extract_output, p, op, res, prices)
        d = out['dispatch']; 
        msgs=[]
        for n in nodes:
            cols = [c for c in d.columns if (len(nodes)==1) or c.endswith('('+n.name+')')]
            s = d[cols].sum(axis=1).abs().max()
            if s>1e-5: msgs.append(('balance',n.name,s))
        tot = out['DCF'].sum().sum()
        if abs(tot-res.value)>1e-5*(1+abs(res.value)): msgs.append(('dcf',tot,res.value))
        coupled = any(isinstance(a,(A.Storage,A.Contract,A.OrderBook)) for a in assets)
        ops = quiet(p.setup_split_optim_problem, prices, tg, interval_size=str(rng.choice(['3h','2h','5h'])))
        rs = quiet(ops.optimize)
        outs = quiet(eao.io.extract_output, p, ops, rs, prices)
        if not coupled and abs(rs.value-res.value)>1e-5*(1+abs(res.value)): msgs.append(('split value',rs.value,res.value))
        ds = outs['dispatch']
        for n in nodes:
            cols = [c for c in ds.columns if (len(nodes)==1) or c.endswith('('+n.name+')')]
            s = ds[cols].sum(axis=1).abs().max()
            if s>1e-5: msgs.append(('split balance',n.name,s))
        tots = outs['DCF'].sum().sum()
        if abs(tots-rs.value)>1e-5*(1+abs(rs.value)): msgs.append(('split dcf',tots,rs.value))
        if msgs: bad+=1; print(seed, [type(a).__name__ for a in assets], msgs)
    except Exception as e:
        bad+=1; tb = traceback.extract_tb(e.__traceback__)[-1]
        print(seed,'EXC',type(e).__name__,str(e)[:100], tb.filename.split('/')[-1], tb.lineno)
print('done bad',bad)
