#!/bin/bash
# builds the Coq development from files on disk only (full .vo build), then the gate
set -e
python3 "$(dirname "$0")/harness/classtable.py" > /dev/null   # C11: the class table is generated from /repo
cd "$(dirname "$0")/coq"
coq_makefile -f _CoqProject -o Makefile > /dev/null
timeout 3000 make -j16
cd ..
if grep -rnE 'Admitted|admit\.|^\s*Axiom |^\s*Parameter |^\s*Conjecture |Unset Guard|bypass_check|type-in-type|Admit Obligations' coq --include='*.v'; then
  echo "forbidden construct found" >&2; exit 1
fi
echo setup ok
